#!/bin/sh
# Offline setup: nothing to build; parse every specification once so that a
# broken module is reported here and not inside a check.
set -e
cd /verif/spec
for f in *.tla; do
  [ -e "$f" ] || continue
  tla-sany "$f" > /tmp/.sany.$$ 2>&1 || { cat /tmp/.sany.$$; rm -f /tmp/.sany.$$; echo "SANY failed: $f"; exit 1; }
done
rm -f /tmp/.sany.$$
echo "setup ok"
