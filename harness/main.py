"""./check <id> [--tier quick|thorough] [--replay path] [--selftest]"""
import argparse
import importlib
import os
import sys
import traceback
import warnings

os.environ.setdefault('TENEVA_VERIF', '1')
os.environ.setdefault('PYTHONHASHSEED', '0')
os.environ.setdefault('OMP_NUM_THREADS', '1')
os.environ.setdefault('OPENBLAS_NUM_THREADS', '1')
os.environ.setdefault('MKL_NUM_THREADS', '1')
REPO = os.environ.get('VERIF_REPO', '/repo')      # registered commands always use /repo; tools/ may point to a scratch worktree
sys.path.insert(0, REPO)
warnings.simplefilter('ignore')

from . import common, tlc  # noqa: E402


def main():
    ap = argparse.ArgumentParser()
    ap.add_argument('pid')
    ap.add_argument('--tier', default=os.environ.get('VERIF_TIER', 'quick'))
    ap.add_argument('--replay', default=None)
    ap.add_argument('--selftest', action='store_true')
    a = ap.parse_args()
    seed = int(os.environ.get('VERIF_SEED', '0') or 0)
    pid = a.pid.upper()
    # watchdog: a library call that never returns must not hang the check (the exception surfaces inside the library frame
    # and is then reported like any other exception raised there)
    import signal
    budget = int(os.environ.get('VERIF_TIMEOUT', '2400' if a.tier == 'quick' else '21600'))

    def on_alarm(signum, frame):
        raise TimeoutError('no result within %d s (check watchdog)' % budget)
    signal.signal(signal.SIGALRM, on_alarm)
    signal.alarm(budget)
    try:
        import teneva
        if not os.path.abspath(teneva.__file__).startswith(os.path.abspath(REPO) + '/'):
            raise common.Machinery('teneva imported from %s, not from %s' % (teneva.__file__, REPO))
        mod = importlib.import_module('harness.' + pid.lower())
        ctx = common.Ctx(pid, a.tier, seed)
        if a.replay:
            import json
            ctx.replay_filter = json.load(open(a.replay))
        if a.selftest:
            rc = mod.selftest(ctx)
        else:
            mod.run(ctx)
            rc = ctx.finish()
        sys.exit(rc)
    except (tlc.TlcError, common.Machinery) as ex:
        print('MACHINERY-FAILURE %s: %s' % (pid, ex))
        sys.exit(2)
    except SystemExit:
        raise
    except Exception as ex:
        traceback.print_exc()
        # An exception raised INSIDE the library on one of the check's (valid) inputs is a verdict about the library,
        # not about the machinery: every check's input families are inputs on which the property promises a result.
        tb = traceback.extract_tb(ex.__traceback__)
        lib = os.path.abspath(REPO) + '/teneva/'
        # the exception surfaced inside the library: in one of its own frames, or in NumPy / SciPy code the library called
        # (no harness frame between the library frame and the point where it was raised)
        last_h = max([j for j, f in enumerate(tb) if '/harness/' in f.filename] or [-1])
        lib_frames = [f for f in tb[last_h + 1:] if os.path.abspath(f.filename).startswith(lib)]
        if lib_frames and 'ctx' in locals():
            lf = lib_frames[-1]
            where = '%s:%s' % (os.path.relpath(lf.filename, REPO), lf.name)
            caller = next((f for f in reversed(tb) if '/harness/' in f.filename), None)
            ctx.violation('raised:' + where, 'the library raised %s: %s in %s (called from %s line %s) on an input of the check'
                          % (type(ex).__name__, ex, where, caller.name if caller else '?', caller.lineno if caller else '?'),
                          case={'traceback': traceback.format_exc()})
            sys.exit(ctx.finish())
        print('MACHINERY-FAILURE %s: unexpected exception in the harness' % pid)
        sys.exit(2)


if __name__ == '__main__':
    main()
