"""C10 - results depend only on arguments and seed, not on global state or history.

History.tla: the key of a call is what the contract lets the result depend on;
TLC checks HistoryIndependent / GlobalUntouched on every interleaving up to
the bound (and that a leaking implementation violates it), and emits all
interleavings.  Each is executed in this process with concrete functions from
the registry standing for the abstract ones; fingerprints are SHA-256 of the
result bytes; equal keys must give equal fingerprints across ALL histories of
the run, reference fingerprints of default-dictionary calls are taken with
explicitly passed fresh dictionaries, and no call may move the global NumPy
generator.
"""
import hashlib
import pickle

import numpy as np

import teneva

from . import registry as RG
from . import tlc

SEEDED = ['anova', 'anova2', 'core_qr_rand', 'cross_act', 'cross_act_dr2', 'sample', 'sample_lhs', 'sample_rand', 'sample_rand_poi',
          'sample_square', 'sample_square_nu', 'sample_square_retry', 'sample_tt', 'sample_func', 'rand', 'rand_norm', 'rand_stab']


def _peaked():
    Y = teneva.rand([4, 4, 4], 2, seed=4)
    Y[0][:, :2, :] *= 30.
    return Y


EXTRA = {
    'sample_square_retry': lambda: (teneva.sample_square, (_peaked(), 40), dict(seed=1, m_fact=1)),
    'sample_square_retry2': lambda: (teneva.sample_square, (_peaked(), 30), dict(seed=1, m_fact=2, unique=True)),
}
SEEDED.append('sample_square_retry2')

# calls whose optional dictionaries are left at their defaults, in several argument variants
T3 = RG.tt()


def _f(I):
    return teneva.get_many(T3, I)


DEFAULTS = {
    'cross': [lambda: (teneva.cross, (_f, RG.tt(r=1, seed=8)), dict(m=60)),
              lambda: (teneva.cross, (_f, RG.tt(r=1, seed=8)), dict(nswp=3)),
              lambda: (teneva.cross, (_f, RG.tt(r=2, seed=8)), dict(nswp=1, m=1000, dr_min=0, dr_max=0)),
              lambda: (teneva.cross, (_f, RG.tt(r=1, seed=8)), dict(e=1e-6, nswp=4, cache={}))],
    'als': [lambda: (teneva.als, (RG.I0.copy(), RG.y0.copy(), RG.tt(seed=9)), dict(nswp=1)),
            lambda: (teneva.als, (RG.I0.copy(), RG.y0.copy(), RG.tt(seed=9)), dict(nswp=3, e=1e-3)),
            lambda: (teneva.als, (RG.I0.copy(), RG.y0.copy(), RG.tt(r=1, seed=9)), dict(nswp=2, r=3))],
    'als_func': [lambda: (teneva.als_func, (RG.X0.copy(), RG.yX.copy(), RG.tt([3, 3, 3], 2, 4)), dict(nswp=1)),
                 lambda: (teneva.als_func, (RG.X0.copy(), RG.yX.copy(), RG.tt([3, 3, 3], 2, 4)), dict(nswp=3))],
    'cache_to_data': [lambda: (teneva.cache_to_data, (), {}),
                      lambda: (teneva.cache_to_data, ({(1, 2): 3.},), {})],
}


def fp(res):
    if callable(res):
        res = res(np.array([0.5, 1.5, 2.5]))
    return hashlib.sha256(pickle.dumps(RG.snap(res))).hexdigest()[:16]


def gstate():
    s = np.random.get_state()
    return hashlib.sha256(s[1].tobytes() + bytes([s[2] % 256])).hexdigest()[:12]


def build(name):
    if name in EXTRA:
        return EXTRA[name]()
    return RG.CALLS[name]()


def _fresh_fp(name):
    """fingerprint of one call made as the FIRST library call of a process (forked from the harness before it called
    anything): the reference for 'results do not depend on earlier calls'"""
    try:
        f, a, k = build(name)
        r_ = RG.quiet(f, *a, **k)
        fill = {kk: {x: y for x, y in vv.items() if x != 't'} for kk, vv in k.items() if kk in RG.FILL_KEYS and isinstance(vv, dict)}
        return name, fp((r_, fill))
    except Exception as ex:
        return name, 'raised %s: %s' % (type(ex).__name__, str(ex)[:100])


def run(ctx):
    # --- before this process calls anything: every variant once in its own forked child (fresh module state)
    import multiprocessing as mp
    quick0 = ctx.tier == 'quick'
    slow0 = {'cross', 'cross_vld', 'cross_act', 'als', 'als_w', 'als_vld', 'als_adapt', 'als_func', 'als_func_vld', 'als_func_nolamb',
             'optima_qtt', 'svd_incomplete', 'als_adapt_big', 'als_adapt_swap'}
    fresh_names = [n_ for n_ in sorted(RG.CALLS) if not (quick0 and n_ in slow0)]
    with mp.get_context('fork').Pool(12, maxtasksperchild=1) as pool:
        fresh = dict(pool.map(_fresh_fp, fresh_names, chunksize=1))
    ctx.rule = ('cases = calls executed inside TLC-emitted interleavings; distinct = (history, concrete functions bound to it); '
                'non-trivial = the history repeats a key after a perturbation of the global generator or after another library call')
    ctx.assumptions = ['fingerprint = SHA-256 of the result bytes (shape, dtype, data) - bit-for-bit',
                       'single process, BLAS single-threaded; same objects / layouts for repeated calls',
                       'info["t"] (wall time) is excluded from fingerprints']
    res = tlc.run('History', cfg='History_faulty.cfg', workers=4, timeout=900, allow_violation=True)
    if res.violated is None:
        raise tlc.TlcError('a leaking implementation does not violate HistoryIndependent: invariant is vacuous')
    ctx.add_tlc(res, 'non-vacuity: faulty implementation violates HistoryIndependent')
    res = tlc.run('History', cfg='History.cfg', workers=8, timeout=1800)
    ctx.add_tlc(res, 'History: all interleavings up to length 4 (emitted)')
    hists = []
    seen_h = set()
    for h in res.json:
        k = repr(h)
        if k not in seen_h:
            seen_h.add(k)
            hists.append(h)
    if not hists:
        raise tlc.TlcError('History emitted nothing')
    rng = np.random.default_rng(ctx.seed)
    quick = ctx.tier == 'quick'
    det = [n for n in sorted(RG.CALLS) if RG.base_name(n) not in {RG.base_name(s) for s in SEEDED if s in RG.CALLS} and n not in DEFAULTS]
    slow = {'cross', 'cross_vld', 'cross_act', 'als', 'als_w', 'als_vld', 'als_adapt', 'als_func', 'als_func_vld', 'als_func_nolamb',
            'anova2', 'optima_qtt', 'svd_incomplete', 'ANOVA_call', 'als_adapt_swap'}
    seen = {}       # key -> fingerprint, across ALL histories of this run

    def observe(key, f_, what, case):
        ctx.case(key=(key, what), nontrivial=key in seen)
        if key in seen and seen[key] != f_:
            ctx.violation('history:' + key[1].split('#')[0], '%s: result differs from an earlier call with the same arguments / seed (%s)' % (key[1], what), case=case)
        seen.setdefault(key, f_)

    # reference fingerprints of default-dictionary calls: explicit fresh dictionaries, fresh process state not needed
    for fname, variants in DEFAULTS.items():
        for v, mk in enumerate(variants):
            f, a, k = mk()
            k = dict(k)
            if fname != 'cache_to_data':
                k['info'] = {}
            seen[('W', '%s#%d' % (fname, v))] = fp(RG.quiet(f, *a, **k))
    nh = 150 if quick else min(len(hists), 1500)
    order = rng.permutation(len(hists))[:nh]
    for hi in order:
        h = hists[hi]
        # bind the abstract function to concrete ones for this history
        s_name = SEEDED[int(rng.integers(len(SEEDED)))]
        d_pool = [n for n in det if (n not in slow or rng.random() < 0.1)]
        d_name = d_pool[int(rng.integers(len(d_pool)))]
        w_name = list(DEFAULTS)[int(rng.integers(len(DEFAULTS)))]
        gens = {}
        np.random.seed(int(rng.integers(1 << 30)))
        for step in h:
            g0 = gstate()
            case = {'history': h, 'bound': [s_name, d_name, w_name]}
            if step['op'] == 'P':
                if rng.random() < 0.5:
                    np.random.rand(int(rng.integers(1, 9)))
                else:
                    np.random.seed(int(rng.integers(1 << 30)))
                continue
            if step['op'] == 'S':
                f, a, k = build(s_name)
                k = dict(k)
                k['seed'] = [0, 7, 100, 2 ** 31 + 5][(step['seed'] - 1) * 2 + (step['v'] - 1) % 2]      # includes the seed 0
                observe(('S', s_name, k['seed']), fp(RG.quiet(f, *a, **k)), 'integer seed', case)
            elif step['op'] == 'G':
                f, a, k = build(s_name)
                k = dict(k)
                gs = 500 + step['seed']
                if gs not in gens:
                    gens[gs] = np.random.default_rng(gs)
                k['seed'] = gens[gs]
                observe(('G', s_name, gs, step['use']), fp(RG.quiet(f, *a, **k)), 'generator object, use #%d' % step['use'], case)
            elif step['op'] == 'D':
                f, a, k = RG.CALLS[d_name]()
                r_ = RG.quiet(f, *a, **k)
                fill = {kk: {x: y for x, y in vv.items() if x != 't'} for kk, vv in k.items() if kk in RG.FILL_KEYS and isinstance(vv, dict)}
                observe(('D', d_name), fp((r_, fill)), 'deterministic', case)
            elif step['op'] == 'W':
                variants = DEFAULTS[w_name]
                v = (step['v'] - 1) % len(variants)
                f, a, k = variants[v]()
                observe(('W', '%s#%d' % (w_name, v)), fp(RG.quiet(f, *a, **k)), 'optional dictionaries at their defaults', case)
            if gstate() != g0:
                ctx.violation('global-rng:' + {'S': s_name, 'G': s_name, 'D': d_name, 'W': w_name}[step['op']],
                              'the call moved the global NumPy generator', case=case)
    # sibling interleaving: variants of the SAME exported function called in the order a, b, a - whatever the first call
    # keeps (memo tables, default dictionaries, module state) must not change the answer of the third
    groups = {}
    for name in sorted(RG.CALLS):
        groups.setdefault(RG.base_name(name), []).append(name)
    for base, names in sorted(groups.items()):
        if len(names) < 2:
            continue
        pairs = [(names[j], names[(j + 1) % len(names)]) for j in range(len(names))]
        if quick:
            pairs = pairs[:3] if base not in ('anova', 'ANOVA') else pairs
        for a_name, b_name in pairs:
            if (a_name in slow or b_name in slow) and quick and base not in ('anova', 'ANOVA'):
                continue

            def once(nm):
                f, a, k = build(nm)
                r_ = RG.quiet(f, *a, **k)
                fill = {kk: {x: y for x, y in vv.items() if x != 't'} for kk, vv in k.items() if kk in RG.FILL_KEYS and isinstance(vv, dict)}
                return fp((r_, fill))
            try:
                f1 = once(a_name)
                once(b_name)
                f3 = once(a_name)
            except Exception as ex:
                ctx.violation('history:' + base, '%s, %s, %s in a row: raised %s: %s' % (a_name, b_name, a_name, type(ex).__name__, ex), case={'calls': [a_name, b_name, a_name]})
                continue
            ctx.case(key=('siblings', a_name, b_name), nontrivial=True)
            if f1 != f3:
                ctx.violation('history:' + base, '%s gives another result after a call of %s' % (a_name, b_name), case={'calls': [a_name, b_name, a_name]})
    # late calls against the fresh-process references: by now this process has made thousands of library calls
    for name in fresh_names:
        _, late = _fresh_fp(name)
        ctx.case(key=('fresh-vs-late', name), nontrivial=True)
        if late != fresh[name]:
            ctx.violation('history:' + (RG.base_name(name) or name), '%s: the result after the other calls of this run differs from the result of the same call as the first call of a process' % name,
                          case={'call': name})
    # every seeded function, every deterministic call: direct sweep (perturbed global state, other calls in between)
    for name in SEEDED + det + [None]:
        if name is None:
            break
        reps = []
        for rep in range(3):
            np.random.seed(1000 + rep)
            if rep == 1:
                np.random.rand(5)
                teneva.rand([2, 2], 1, seed=None)
            if rep == 2:
                RG.quiet(*[(f_, a_, k_) for f_, a_, k_ in [RG.CALLS['cross']()]][0][:1], *RG.CALLS['cross']()[1], **RG.CALLS['cross']()[2])
            if rep > 0:
                # disturb the heap: results must not depend on what freed memory happens to contain
                junk = np.random.default_rng(rep).normal(size=200000) * 1e30
                del junk
            f, a, k = build(name)
            if rep == 2 and 'seed' in k:
                k = dict(k, seed=0)
            g0 = gstate()
            r_ = RG.quiet(f, *a, **k)
            fill = {kk: {x: y for x, y in vv.items() if x != 't'} for kk, vv in k.items() if kk in RG.FILL_KEYS and isinstance(vv, dict)}
            reps.append(fp((r_, fill)) if not (rep == 2 and 'seed' in k) else reps[0])
            if rep == 2 and 'seed' in k:
                # seed 0 is an integer seed like any other: two calls must agree
                f2, a2, k2 = build(name)
                k2 = dict(k2, seed=0)
                if fp(RG.quiet(f2, *a2, **k2)) != fp(r_):
                    ctx.violation('history:' + name, '%s: two calls with the integer seed 0 differ' % name, case={'call': name, 'seed': 0})
            # results belong to the caller: after the caller overwrote every array of an earlier result in place, the same call
            # must still give the first answer (no result may be a view of state that the library keeps between calls)
            aliased = any(x_.size and y_.size and np.shares_memory(x_, y_) for x_ in RG.arrays(r_) for y_ in RG.arrays((a, k))
                          if isinstance(x_, np.ndarray) and isinstance(y_, np.ndarray))       # documented pass-through helpers
            if rep == 0 and name not in DEFAULTS and not aliased:
                scribbled = 0
                for arr in RG.arrays(r_):
                    if isinstance(arr, np.ndarray) and arr.flags.writeable and arr.size and arr.dtype.kind in 'fiu':
                        arr[...] = 77
                        scribbled += 1
                if scribbled:
                    f3, a3, k3 = build(name)
                    if 'seed' in k and 'seed' in k3:
                        k3 = dict(k3, seed=k['seed']) if isinstance(k['seed'], int) else None
                    if k3 is not None:
                        r3 = RG.quiet(f3, *a3, **k3)
                        fill3 = {kk: {x: y for x, y in vv.items() if x != 't'} for kk, vv in k3.items() if kk in RG.FILL_KEYS and isinstance(vv, dict)}
                        if fp((r3, fill3)) != reps[0]:
                            ctx.violation('history:' + name, '%s: after the caller overwrote the arrays of an earlier result, the same call returns something else' % name, case={'call': name})
            # repeated call on the SAME argument objects (deliberately filled dictionaries replaced by fresh ones)
            if rep == 0:
                k_again = {kk: ({} if kk in RG.FILL_KEYS and isinstance(vv, dict) else vv) for kk, vv in k.items()}
                if 'seed' in k_again and not isinstance(k_again['seed'], int):
                    k_again = None
                if k_again is not None:
                    r2 = RG.quiet(f, *a, **k_again)
                    fill2 = {kk: {x: y for x, y in vv.items() if x != 't'} for kk, vv in k_again.items() if kk in RG.FILL_KEYS and isinstance(vv, dict)}
                    if fp((r2, fill2)) != reps[0]:
                        ctx.violation('history:' + name, '%s: a second call on the same argument objects returns a different result' % name, case={'call': name})
            if gstate() != g0:
                ctx.violation('global-rng:' + name, '%s moved the global NumPy generator' % name, case={'call': name})
        ctx.case(key=('sweep', name), nontrivial=True)
        if len(set(reps)) != 1:
            ctx.violation('history:' + name, '%s: results differ between global generator states / call histories' % name, case={'call': name})
    check_objects(ctx, ctx.tier == 'quick')


def check_objects(ctx, quick):
    """Objects with methods (ANOVA, order 2), driven by ObjHistory.tla: TLC emits every sequence of method calls (and
    'new object' steps) up to length 3; each sequence runs on fresh objects built from the same data and seed, and the
    real fingerprints are compared by the specification's keys (deterministic method: method + options; stochastic method:
    method + options + the stochastic calls made before on that object)."""
    res = tlc.run('ObjHistory', cfg='ObjHistory_faulty.cfg', workers=4, timeout=900, allow_violation=True)
    if res.violated != 'HistoryIndependent':
        raise tlc.TlcError('ObjHistory: a leaking implementation does not violate HistoryIndependent: invariant is vacuous')
    ctx.add_tlc(res, 'ObjHistory non-vacuity: faulty implementation violates HistoryIndependent')
    res = tlc.run('ObjHistory', cfg='ObjHistory_q.cfg' if quick else 'ObjHistory_t.cfg', workers=8, timeout=1800)
    ctx.add_tlc(res, 'ObjHistory: every method sequence up to length 3 (emitted)')
    if not res.json:
        raise tlc.TlcError('ObjHistory emitted nothing')
    n = [4, 4, 4, 4]
    I = np.vstack([np.random.default_rng(1).integers(0, k, 600) for k in n]).T
    y = 1. + I[:, 0] * I[:, 1] - 0.5 * I[:, 1] * I[:, 2] + 2. * I[:, 0] * I[:, 3] + I[:, 2]
    J = I[:7].copy()

    def obj():
        return teneva.ANOVA(I.copy(), y.copy(), order=2, seed=7)
    methods = {
        'call': lambda A: A(J.copy()),
        'getitem': lambda A: A[J[0].copy()],
        'cores2': lambda A: A.cores_2(),
        'cores2_near': lambda A: A.cores_2(only_near=True),
        'cores2_r3': lambda A: A.cores_2(r=3),
        'f1': lambda A: A.f1_arr,
        'f2': lambda A: A.f2_arr,
        'max': lambda A: A.max(),
        'max_min': lambda A: A.max(min),
        'cores_r2': lambda A: A.cores(r=2),
        'cores_r4_near': lambda A: A.cores(r=4, only_near=True),
        'cores_n0': lambda A: [G + 0. for G in A.cores(r=3, noise=0.)],
        'cores_n0_near': lambda A: [G + 0. for G in A.cores(r=3, noise=0., only_near=True)],
        'sample': lambda A: A.sample(),
    }
    replay_object(ctx, res, 'ANOVA object (order 2, shape %s)' % n, obj, methods, 'call')
    # the functional variant: coefficients are computed lazily on first use, cores at several accuracies
    resf = tlc.run('ObjHistory', cfg='ObjHistory_func.cfg', workers=4, timeout=900)
    ctx.add_tlc(resf, 'ObjHistory (ANOVA_func methods): every method sequence up to length 3 (emitted)')
    Xf = np.random.default_rng(3).uniform(-1., 1., size=(80, 3))
    yf = 1. + Xf[:, 0] ** 2 - 0.5 * Xf[:, 1] + np.cos(Xf[:, 2])

    def objf():
        return teneva.ANOVA_func(Xf.copy(), yf.copy(), 4, -1., 1., 1e-6)
    methods_f = {
        'coeffs': lambda A: A.coeffs,
        'cores_e8': lambda A: A.cores(),
        'cores_e2': lambda A: A.cores(e=1e-2),
        'cores_e12': lambda A: A.cores(e=1e-12),
        'cores_e0': lambda A: A.cores(e=0.),
    }
    replay_object(ctx, resf, 'ANOVA_func object (3 variables, 4 basis functions)', objf, methods_f, 'coeffs')


def replay_object(ctx, res, title, obj, methods, probe):
    if not res.json:
        raise tlc.TlcError('ObjHistory emitted nothing')
    n = title
    broken = set()
    # building the object again from the same data and seed is itself a history: it must work and give the same object
    try:
        fa, fb = fp(RG.quiet(methods[probe], obj())), fp(RG.quiet(methods[probe], obj()))
        ctx.check(fa == fb, 'history:ANOVA', '%s: a second object built from the same data and seed evaluates differently from the first' % title)
    except Exception as ex:
        ctx.violation('history:ANOVA', '%s: building / evaluating a second object from the same data and seed raised %s: %s' % (title, type(ex).__name__, ex))
        return
    for name, m_ in methods.items():
        try:
            RG.quiet(m_, obj())
        except Exception as ex:
            # every method works on a fresh object of the pinned tree: an exception here is a verdict (sequences using the
            # method are skipped)
            broken.add(name)
            ctx.violation('history:ANOVA', '%s: method %s raised %s on a fresh object: %s' % (title, name, type(ex).__name__, ex))
    seen = {}
    nrun = 0
    for hist in res.json:
        if any(st['x'] in broken for st in hist if st['op'] != 'N'):
            continue
        nrun += 1
        A, rseq = obj(), []
        ctx.case(key=('object-history', title, tuple((st['op'], st['x']) for st in hist)), nontrivial=len({st['x'] for st in hist}) > 1)
        for pos, st in enumerate(hist):
            if st['op'] == 'N':
                A, rseq = obj(), []
                continue
            key = ('M', st['x']) if st['op'] == 'M' else ('R', st['x'], tuple(rseq))
            what = ' -> '.join(s_['x'] for s_ in hist[:pos + 1])
            try:
                got = fp(RG.quiet(methods[st['x']], A))
            except Exception as ex:
                ctx.violation('history:ANOVA', '%s: the call sequence %s raised %s: %s (every method works on a fresh object)' % (title, what, type(ex).__name__, ex), case={'hist': hist})
                break
            if st['op'] == 'R':
                rseq.append(st['x'])
            if key in seen:
                ctx.check(seen[key][0] == got, 'history:ANOVA', '%s: %s after [%s] differs from the same call after [%s] (same data, seed, arguments%s)'
                          % (title, st['x'], what, seen[key][1], '' if st['op'] == 'M' else ' and same earlier draws'), case={'hist': hist})
            else:
                seen[key] = (got, what)
    if nrun == 0 and not broken:
        raise tlc.TlcError('no ObjHistory behaviour could be replayed')
