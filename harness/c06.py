"""C06 - TT-cross honours its evaluation budget, index domain and stop contract.

1. TLC explores Cross exhaustively (MC_Cross): every budget, every position of
   a None answer, every callback / accuracy stop sweep, every admissible row
   choice; DomainInv, BudgetInv, CountInv, FoldCompat, ReturnWF, StopInv,
   ScriptInv are invariants; termination is checked under fairness.
2. spec -> code: the deterministic configuration (dr = 0/0, no cache) emits
   the table script -> (m, nswp, stop, ranks, calls); every script is executed
   with the real teneva.cross and compared.  The argument-check table of
   CrossContract is replayed for all 32 combinations.
3. code -> spec: recorded executions (all fault suites) are validated by TLC
   against Trace_Cross, which evaluates the invariants at every event.
"""
import itertools

import numpy as np

import teneva

from . import cross_rec as R
from . import tlc, traces


def interrupted_inside(tr):
    """non-trivial rule: the interruption falls inside a half-sweep"""
    st = tr['ev'][-1].get('stop')
    return st in ('m', 'func')


def run_model(ctx):
    cfgs = ['MC_Cross_q0.cfg'] if ctx.tier == 'quick' else ['MC_Cross_q0.cfg', 'MC_Cross_q1.cfg']
    for c in cfgs:
        res = tlc.run('MC_Cross', cfg=c, workers=16, timeout=3000)
        ctx.add_tlc(res, 'exhaustive Cross model ' + c)
    res = tlc.run('MC_Cross', cfg='MC_Cross_live.cfg', workers=8, timeout=1800)
    ctx.add_tlc(res, 'termination under weak fairness (PROPERTY Terminates)')


def replay_scripts(ctx):
    """spec -> code on the deterministic configuration."""
    res = tlc.run('MC_Cross', cfg='MC_Cross_emit.cfg', workers=4, timeout=1800)
    ctx.add_tlc(res, 'script table (dr=0/0, no cache), emitted for replay')
    seen = {}
    for c in res.json:
        if c['eAt'] != 0 or c['vAt'] != -1:
            continue
        key = (c['mmax'], c['noneAt'], c['cbAt'])
        fin = (c['m'], c['nsw'], c['stop'], tuple(c['ranks']), c['ncall'])
        if key in seen and seen[key] != fin:
            raise tlc.TlcError('emission config is not deterministic for script %s' % (key,))
        seen[key] = fin
        cfg0 = c
    if not seen:
        raise tlc.TlcError('no script emitted')
    n, r0 = cfg0['n'], cfg0['r0']
    for (mmax, none_at, cb_at), fin in sorted(seen.items()):
        if ctx.replay_filter and ctx.replay_filter.get('case', {}).get('script') != [mmax, none_at, cb_at]:
            continue
        tr, info, nc = R.record(n, 2, r0[1], 0, 0, nswp=cfg0['nswp'], cache=False,
                                m=None if mmax == -1 else mmax, none_at=none_at or None,
                                cb_at=cb_at or None, seed=11 + ctx.seed)
        last = tr['ev'][-1]
        got = (last['m'], last['nswp'], last['stop'], tuple(last['ranks']), nc)
        ctx.case(key=('script', mmax, none_at, cb_at), nontrivial=fin[2] in ('m', 'func', 'cb'),
                 sample={'script': {'mmax': mmax, 'noneAt': none_at, 'cbAt': cb_at}, 'model_final': fin})
        ctx.check(got == fin, 'cross:script-final-state',
                  'script (mmax=%s, noneAt=%s, cbAt=%s): code final (m, nswp, stop, ranks, calls) = %s, model = %s'
                  % (mmax, none_at, cb_at, got, fin), case={'script': [mmax, none_at, cb_at]})


def replay_args(ctx):
    res = tlc.run('MC_CrossArgs', workers=1, timeout=300)
    ctx.add_tlc(res, 'argument-check table (64 combinations: validation indices and values separately)')
    n = [3, 3, 3]
    T = teneva.rand(n, 2, seed=5)
    F = R.dense(T)
    I_v = np.array([[0, 1, 2], [1, 1, 1], [2, 0, 1]])
    y_v = F[tuple(I_v.T)]
    for row in res.json:
        a = row['args']
        calls = [0]

        class _NoStop(Exception):
            pass

        def f(I):
            calls[0] += 1
            if calls[0] > 400:          # far beyond what any accepted combination needs: the run has no effective stop criterion
                raise _NoStop()
            return F[tuple(np.asarray(I).T)]
        kw = dict(m=200 if a['hasM'] else None, e=1e-6 if a['hasEps'] else None,
                  nswp=2 if a['hasN'] else None, e_vld=1e-6 if a['hasEv'] else None,
                  I_vld=I_v if a['hasI'] else None, y_vld=y_v if a['hasY'] else None)
        raised = None
        try:
            teneva.cross(f, teneva.rand(n, 2, seed=6), info={}, **kw)
        except ValueError:
            raised = 'ValueError'
        except _NoStop:
            raised = 'accepted, and then never stopped (aborted after 400 objective calls)'
        except Exception as ex:   # any other exception type is not the documented rejection
            raised = type(ex).__name__
        ctx.case(key=('args', sorted(a.items())), nontrivial=True)
        if row['ok']:
            ctx.check(raised is None, 'cross:argcheck', 'valid stop arguments %s rejected with %s' % (a, raised), case=a)
        else:
            ctx.check(raised == 'ValueError' and calls[0] == 0, 'cross:argcheck',
                      'missing stop criteria %s: raised=%s, objective calls before rejection=%d' % (a, raised, calls[0]), case=a)


def collect_traces(ctx, dense_budgets_first=True):
    rng = np.random.default_rng(ctx.seed)
    confs = R.BASE_CONFIGS[:3] + [R.BASE_CONFIGS[4]] + R.BASE_CONFIGS[-3:] if ctx.tier == 'quick' else list(R.BASE_CONFIGS)      # [4]: nswp = 0, [-1]: cache ties
    if ctx.tier != 'quick':
        # random configurations
        for _ in range(6):
            d = int(rng.integers(2, 5))
            n = [int(x) for x in rng.integers(1, 4, size=d)]
            if int(np.prod(n)) < 2:
                n[0] = 2
            drm = int(rng.integers(0, 3))
            drM = drm + int(rng.integers(0, 2))
            confs.append((n, int(rng.integers(1, 3)), int(rng.integers(1, 4)), drm, drM, int(rng.integers(0, 3))))
    out = []
    for k, (n, rho, r0, a, b, nswp) in enumerate(confs):
        for cache in (False, True):
            dense_b = (k == 1) or (ctx.tier != 'quick' and k in (0, 2, 4))
            out += R.fault_suite(n, rho, r0, a, b, nswp, cache, seed=3 + ctx.seed + k, dense_budgets=dense_b)
    return out


def validate(ctx, trs, sigprefix='cross:trace'):
    full = [t for t in trs if not t.get('degraded')]
    verdicts = {}
    if full:
        vs, st, gen, runs = traces.validate('Trace_Cross', [R.strip(t) for t in full],
                                            cfg='Trace_Cross.cfg', diag_cfg='Trace_Cross_diag.cfg')
        for r_ in runs:
            ctx.add_tlc(r_, 'trace validation (Trace_Cross), %d traces' % len(full))
        verdicts.update({id(t): v for t, v in zip(full, vs)})
    # degraded recordings (a refactoring removed the _iter / _func seam): count abstraction with silent iteration steps,
    # final flags judged here; nothing is claimed that was not observed
    noiter = [t for t in trs if t.get('degraded') == 'noiter' and t['ev'][-1].get('ev') != 'raised']
    if noiter or (full and ctx.tier != 'quick'):
        proj = noiter + ([t for t in full if t['ev'][-1].get('ev') != 'raised'] if ctx.tier != 'quick' else [])
        vs, st, gen, runs = traces.validate('Trace_CrossCounts', [R.to_counts(t) for t in proj],
                                            cfg='Trace_CrossCounts.cfg', diag_cfg='Trace_CrossCounts_diag.cfg')
        for r_ in runs:
            ctx.add_tlc(r_, 'trace validation (Trace_CrossCounts, projected recordings), %d traces' % len(proj))
        for t, v in zip(proj, vs):
            if t.get('degraded'):
                verdicts[id(t)] = v
            elif not v['ok'] and verdicts[id(t)]['ok']:
                verdicts[id(t)] = dict(ok=False, why='projection onto CrossCounts rejected: ' + v['why'])
    degraded = sorted(set(t['degraded'] for t in trs if t.get('degraded')))
    if degraded:
        ctx.notes['degraded'] = 'teneva.cross lost a seam (%s): recordings validated at reduced resolution' % ', '.join(degraded)
    for t in trs:
        key = (t['cfg'], t['meta'])
        if t['ev'] and t['ev'][-1].get('ev') == 'raised':
            ctx.case(key=key, nontrivial=True)
            ctx.violation('cross:raises', 'cross raised instead of returning a tensor (%s); cfg=%s fault=%s' % (t['ev'][-1]['what'], t['cfg'], t['meta']),
                          case={'cfg': t['cfg'], 'meta': t['meta']})
            continue
        ctx.case(key=key, nontrivial=interrupted_inside(t),
                 sample={'cfg': t['cfg'], 'fault': t['meta'], 'events': len(t['ev']), 'final': t['ev'][-1]})
        last = t['ev'][-1]
        if t.get('degraded'):
            mm = t['cfg']['mmax']
            flags = {k: last[k] for k in ('finite', 'cache_ok', 'e_ok', 'evld_ok', 'r_ok', 'conv_ok')}
            ok = all(flags.values()) and (mm < 0 or last['m'] <= mm) and last['shape'] == t['cfg']['n'] \
                and last['stop'] in ('m', 'func', 'nswp', 'cb', 'conv', 'e', 'e_vld')
            if not ok:
                ctx.violation(sigprefix, 'final state violates the contract (degraded recording): %s; cfg=%s fault=%s' % (last, t['cfg'], t['meta']),
                              case={'cfg': t['cfg'], 'meta': t['meta'], 'events': t['ev']})
                continue
        v = verdicts.get(id(t))
        if v is None:
            continue
        if v['ok']:
            ctx.trace_ok()
        else:
            ctx.violation(sigprefix, 'trace rejected (%s); cfg=%s fault=%s' % (v['why'], t['cfg'], t['meta']),
                          case={'cfg': t['cfg'], 'meta': t['meta'], 'events': t['ev']})
    return [verdicts.get(id(t), dict(ok=True, why='not validated (no seam)')) for t in trs]


def check_shared_info(ctx):
    """histories: the stop contract is per call.  A call made after another one - sharing the caller's info dictionary,
    or both relying on the default one - must behave exactly like the same call on a fresh dictionary."""
    n = [3, 4, 3, 2]
    T = teneva.rand(n, 2, seed=8)
    Fd = R.dense(T)

    def f(I):
        return Fd[tuple(np.asarray(I).T)]
    Y0 = teneva.rand(n, 2, seed=9)
    plans = [
        [dict(m=25), dict(nswp=2)],
        [dict(m=25, nswp=3), dict(nswp=1), dict(m=40)],
        [dict(nswp=1, e=1e-6), dict(m=30), dict(nswp=2, e_vld=1e-9, vld=True)],
        [dict(m=10, cache=True), dict(nswp=2, cache=True), dict(nswp=1)],
    ]
    I_v = np.array([[0, 1, 2, 1], [2, 3, 0, 0], [1, 1, 1, 1], [2, 0, 2, 1]])
    y_v = Fd[tuple(I_v.T)]

    def call(kw, info):
        kw = dict(kw)
        extra = {}
        if kw.pop('cache', False):
            extra['cache'] = {}
        if kw.pop('vld', False):
            extra.update(I_vld=I_v, y_vld=y_v)
        if info is not None:
            extra['info'] = info
        return teneva.cross(f, [G.copy() for G in Y0], **kw, **extra)
    for mode in ('shared', 'default'):
        for p, plan in enumerate(plans):
            shared = {}
            for j, kw in enumerate(plan):
                fresh = {}
                Yf = call(kw, fresh)
                Ys = call(kw, shared if mode == 'shared' else None)
                if mode == 'default':
                    import inspect
                    shared = inspect.signature(teneva.cross).parameters['info'].default
                    if not isinstance(shared, dict):
                        break
                ctx.case(key=('history', mode, p, j), nontrivial=j > 0)
                same = len(Yf) == len(Ys) and all(a.shape == b.shape and np.array_equal(a, b) for a, b in zip(Yf, Ys))
                keys = ('m', 'm_cache', 'nswp', 'stop', 'e_vld')
                ok = same and all(fresh.get(k_) == shared.get(k_) for k_ in keys)
                ctx.check(ok, 'cross:history', 'call %d of plan %s (%s info dictionary): result / info differ from the same call on a fresh dictionary: '
                          'fresh %s, %s %s' % (j, plan, mode, {k_: fresh.get(k_) for k_ in keys}, mode, {k_: shared.get(k_) for k_ in keys}),
                          case={'plan': repr(plan), 'mode': mode, 'call': j})


def validate_repo_tests(ctx):
    """code -> spec on the repository's own cross tests: sizes-only traces against the count abstraction CrossCounts
    (Cross refines CrossCounts: PROPERTY Refines in MC_Cross_q0.cfg)."""
    from . import main, repo_tests
    tr, note = repo_tests.record(main.REPO, ['test/test_cross.py'])
    ctx.notes['repo_tests'] = note
    trs = tr.get('cross', [])
    if not trs:
        return
    verdicts, st, gen, runs = traces.validate('Trace_CrossCounts', trs, cfg='Trace_CrossCounts.cfg', diag_cfg='Trace_CrossCounts_diag.cfg')
    for r_ in runs:
        ctx.add_tlc(r_, 'trace validation (Trace_CrossCounts), %d executions of test/test_cross.py' % len(trs))
    for i, (t, v) in enumerate(zip(trs, verdicts)):
        ctx.case(key=('repo-test', i, t['cfg']), nontrivial=t['ev'][-1].get('stop') in ('m', 'func'),
                 sample={'repo_test_cfg': t['cfg'], 'events': len(t['ev']), 'final': t['ev'][-1]})
        if v['ok']:
            ctx.trace_ok()
        else:
            ctx.violation('cross:repo-test-trace', 'execution %d of test/test_cross.py is not a behaviour of CrossCounts (%s); cfg=%s' % (i, v['why'], t['cfg']),
                          case={'cfg': t['cfg'], 'events': t['ev']})


def run(ctx):
    ctx.rule = ('cases = fault scripts replayed (spec->code) + recorded executions validated (code->spec); '
                'non-trivial = distinct (configuration, fault script) whose interruption falls inside a half-sweep '
                '(stop m / func) or, for replayed scripts, that end by budget / None / callback')
    ctx.assumptions = ['objective is a table lookup of a random rank-rho tensor',
                       'inner events come from the func=, cb=, objective and teneva.cross._iter seams',
                       'exhaustive bounds: d<=3, n<=3, growth 1/1 or 0/0, <=2 sweeps, budgets 1..40/60']
    run_model(ctx)
    replay_args(ctx)
    replay_scripts(ctx)
    trs = collect_traces(ctx)
    validate(ctx, trs)
    check_shared_info(ctx)
    validate_repo_tests(ctx)


def selftest(ctx):
    from . import selftest as ST
    return ST.cross(ctx)
