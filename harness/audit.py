"""Auditing numpy Generator: records every draw request (distribution,
parameters, size, probability vector) while delegating to a real PCG64."""
import numpy as np


class AuditGen(np.random.Generator):
    def __init__(self, seed=0):
        super().__init__(np.random.PCG64(seed))
        self.log = []

    def _rec(self, name, **kw):
        self.log.append(dict(fn=name, **kw))

    def uniform(self, low=0.0, high=1.0, size=None):
        out = super().uniform(low, high, size)
        self._rec('uniform', low=low, high=high, size=size, out=np.array(out, copy=True))
        return out

    def normal(self, loc=0.0, scale=1.0, size=None):
        out = super().normal(loc, scale, size)
        self._rec('normal', loc=loc, scale=scale, size=size, out=np.array(out, copy=True))
        return out

    def choice(self, a, size=None, replace=True, p=None, axis=0, shuffle=True):
        out = super().choice(a, size=size, replace=replace, p=p, axis=axis, shuffle=shuffle)
        self._rec('choice', a=a if np.isscalar(a) else np.array(a, copy=True), size=size, replace=replace,
                  p=None if p is None else np.array(p, dtype=float, copy=True), out=np.array(out, copy=True))
        return out

    def shuffle(self, x, axis=0):
        self._rec('shuffle', n=len(x))
        return super().shuffle(x, axis=axis)

    def permutation(self, x, axis=0):
        out = super().permutation(x, axis=axis)
        self._rec('permutation', n=x if np.isscalar(x) else len(x))
        return out

    def integers(self, low, high=None, size=None, dtype=np.int64, endpoint=False):
        out = super().integers(low, high=high, size=size, dtype=dtype, endpoint=endpoint)
        self._rec('integers', low=low, high=high, size=size, out=np.array(out, copy=True))
        return out

    def random(self, size=None, dtype=np.float64, out=None):
        o = super().random(size=size, dtype=dtype, out=out)
        self._rec('random', size=size)
        return o
