"""C02 - truncate keeps the error within e*||Y|| and never exceeds rank caps.

TLC executes the rounding sweep of Rounding.tla (dir = "rtl") in exact integer
arithmetic on every member of the distinct-last-index family inside the
configured bounds, for every threshold position T + 1/2, every cap; the five
inequalities of the property are invariants of the model.  Every emitted case
is replayed through teneva.truncate after random symmetries (mode rotations,
gauge changes, power-of-two scaling, rank padding, memory order) in both
decomposition modes, with and without stabilisation; ranks, error and dense
result must equal the specification's outcome (inequalities only when a tie
straddles a cut).  add_many is replayed as a behaviour AddTerm* / Round.
"""
import numpy as np

import teneva

from . import families as F
from . import rounding as RD


def replay_add_many(ctx, cases, rng, count):
    """add_many = repeated add + periodic truncate(e) + final truncate(e, r): bound per rounding step."""
    done = 0
    for case in cases:
        if done >= count:
            break
        if case['dir'] != 'rtl' or len(case['ent']) < 3 or any(o['tie'] for o in case['outcomes']) or RD.tiered(case):
            continue
        d, N, T = case['d'], case['N'], case['T']
        n = [case['npre']] * (d - 1) + [len(case['ent'])]
        terms = [F.delta_tt(n, list(e['pre']) + [t], np.sqrt(e['en'])) for t, e in enumerate(case['ent'])]
        e = float(np.sqrt((2 * T + 1) * (d - 1) / (2.0 * N)))
        cap = case['cap'] if case['cap'] != 99 else 1.E+12
        # trunc_freq larger than the number of additions: only the final rounding acts -> same outcome as truncate
        Z = teneva.add_many(terms, e, cap, trunc_freq=15)
        o = case['outcomes'][0]
        rz = [int(G.shape[2]) for G in Z[:-1]] if F.is_wellformed(Z, n) else None
        Fd = sum(F.dense(t_) for t_ in terms)
        ctx.case(key=('add_many', case['ent'], T, case['cap']), nontrivial=o['dropped'] > 0)
        ok = rz == o['ranks'] and abs(np.linalg.norm(F.dense(Z) - Fd) ** 2 - o['dropped']) <= 1e-9 * N
        ctx.check(ok, 'add_many:final-round', 'add_many(e=%.4g, r=%s): ranks %s, specification %s (dropped %s)'
                  % (e, case['cap'], rz, o['ranks'], o['dropped']), case=case)
        # trunc_freq = 1: a rounding after every addition, each within e * ||current sum||
        Zs = teneva.add_many(terms, e, 1.E+12, trunc_freq=1)
        ok2 = F.is_wellformed(Zs, n)
        if ok2:
            # worst case: errors of the steps add; every step is bounded by e * ||partial sum|| <= e * ||total||
            err = np.linalg.norm(F.dense(Zs) - Fd)
            ok2 = err <= len(terms) * e * np.sqrt(N) * (1 + 1e-9) + 1e-12
        ctx.check(ok2, 'add_many:per-step-bound', 'add_many(trunc_freq=1, e=%.4g): error above the accumulated bound' % e, case=case)
        done += 1


def replay_add_many_model(ctx, rows, rng, count, label):
    """spec -> code: behaviours of AddMany.tla (terms with signs, periodic roundings without the cap, final rounding
    with the cap) replayed through teneva.add_many; result and ranks must be the model's when no decision sat on a tie
    or on the budget's edge, and the accumulated error bound must hold whenever the final cap did not bind."""
    order = rng.permutation(len(rows))[:count]
    for j in order:
        c = rows[j]
        d, npre, ent = c['d'], c['npre'], c['ent']
        n = [npre] * (d - 1) + [len(ent)]
        terms = [F.delta_tt(n, list(ent[t[0] - 1]['pre']) + [t[0] - 1], t[1] * np.sqrt(ent[t[0] - 1]['en'])) for t in c['terms']]
        e = float(np.sqrt(c['ep'][0] / c['ep'][1]))
        cap = c['cap'] if c['cap'] != 99 else 1.E+12
        sp = int(rng.choice([0, 0, 30, -30]))
        if sp:
            terms = [[G * (2.0 ** sp if k == 0 else 1.) for k, G in enumerate(t)] for t in terms]
        Z = teneva.add_many(terms, e, cap, trunc_freq=c['fr'])
        decisive = not (c['tie'] or c['edge'])
        exact_sum = sum(F.dense(t_) for t_ in terms)
        model = np.zeros(n)
        for jj, cf in enumerate(c['coef']):
            if cf:
                model[tuple(list(ent[jj]['pre']) + [jj])] = cf * np.sqrt(ent[jj]['en']) * 2.0 ** sp
        ctx.case(key=(label, c['ent'], c['terms'], c['fr'], c['cap'], c['ep']), nontrivial=c['err2'] > 0 or c['nrounds'] > 1,
                 sample={'add_many': {k: c[k] for k in ('ent', 'terms', 'fr', 'cap', 'ep', 'coef', 'ranks')}} if j == order[0] else None)
        if not F.is_wellformed(Z, n):
            ctx.violation('add_many:shape', 'add_many returned a malformed tensor', case=c)
            continue
        rz = [int(G.shape[2]) for G in Z[:-1]]
        scale = 2.0 ** sp * np.sqrt(max(1, c['sumN']))
        if decisive:
            ok = rz == c['ranks'] and np.abs(F.dense(Z) - model).max() <= 1e-9 * scale
            ctx.check(ok, 'add_many:model', 'add_many(e^2=%s/%s, r=%s, trunc_freq=%s) on %d signed terms: ranks %s, specification %s; max deviation from the specified result %.3g'
                      % (c['ep'][0], c['ep'][1], c['cap'], c['fr'], len(terms), rz, c['ranks'], np.abs(F.dense(Z) - model).max()), case=c)
        else:
            ok = all(1 <= a <= max(1, c['cap']) for a in rz)
            if not c['capHit']:
                err2 = float(np.sum((F.dense(Z) - exact_sum) ** 2)) / 4.0 ** sp
                ok = ok and err2 * c['ep'][1] <= c['nrounds'] * c['ep'][0] * c['sumN'] * (1 + 1e-9) + 1e-9
            ctx.check(ok, 'add_many:bound', 'add_many: rank cap or accumulated error bound violated (tie / edge case)', case=c)


def _worker(task):
    case, seed, reps = task
    rng = np.random.default_rng(seed)
    out = []
    for rep in range(reps):
        is_eigh = bool(rng.integers(2))
        use_stab = bool(rng.integers(2))
        sp = int(rng.choice([0, 0, -20, 20, 40]))
        pad = rng.random() < 0.15
        if RD.tiered(case):
            # thresholds at relative size ~1e-9: below the sqrt(eps) floor of the eigen-decomposition mode -> SVD mode only
            is_eigh, pad = False, False
        order_ = [None, 'F', 'C'][int(rng.integers(3))]
        # a quarter of the cases as an outer product with a vector (an interior / outer bond of rank one in the input)
        outer_ = None if RD.tiered(case) else [None, None, None, 'right', 'right', 'left'][int(rng.integers(6))] if rng.random() < 0.5 else None
        try:
            msg = RD.replay_truncate(None, case, rng, is_eigh, use_stab, scale_pow=sp, pad=pad, order=order_, outer=outer_)
        except Exception as ex:
            msg = 'truncate raised %s: %s' % (type(ex).__name__, ex)
        reduced = any(a < b for o in case['outcomes'] for a, b in zip(o['ranks'], RD.input_ranks(case)))
        sample = {'entries': case['ent'], 'T': case['T'], 'cap': case['cap'], 'outcomes': case['outcomes'][:2],
                  'flags': {'is_eigh': is_eigh, 'use_stab': use_stab, 'scale_pow': sp, 'outer': outer_}} if seed % 997 == 0 else None
        out.append(('case', (case['ent'], case['T'], case['cap'], is_eigh, use_stab, outer_), reduced, sample))
        if msg:
            out.append(('viol', 'truncate:' + ('eigh' if is_eigh else 'svd'), msg, case))
    return out


def run(ctx):
    from . import common
    ctx.rule = ('cases = (family member, threshold T+1/2, cap) emitted by TLC x (is_eigh, use_stab, symmetries); '
                'distinct = (entries, T, cap, flags); non-trivial = at least one rank is actually reduced')
    ctx.assumptions = ['exact decisions on the distinct-last-index family and its symmetry orbit',
                       'ties straddling a cut are checked by the inequalities only',
                       'rounding floor: thresholds are >= 1/2 in units where entries are >= 1']
    cfgs = ['Rounding_c02_q.cfg', 'Rounding_c02_tier.cfg'] if ctx.tier == 'quick' else ['Rounding_c02_q.cfg', 'Rounding_c02_tier.cfg', 'Rounding_c02_t1.cfg', 'Rounding_c02_t2.cfg', 'Rounding_c02_t3.cfg']
    rng = np.random.default_rng(ctx.seed)
    budget = 10000 if ctx.tier == 'quick' else 400000
    for cfg in cfgs:
        cases = RD.emit(ctx, cfg, 'Rounding rtl: ' + cfg, workers=16)
        order = rng.permutation(len(cases))
        if ctx.replay_filter:
            cases = [ctx.replay_filter['case']]
            order = [0]
        per = max(1, min(len(cases), budget // len(cfgs)))
        tasks = [(cases[j], int(ctx.seed * 1000003 + j), 1 if ctx.tier == 'quick' else 2) for j in order[:per]]
        common.pmap(ctx, _worker, tasks)
        replay_add_many(ctx, [cases[j] for j in order], rng, 150 if ctx.tier == 'quick' else 1500)
    # one step beyond the small scope (no exact model: the inequalities of the property only): d = 6..10, modes up to 8, ranks
    # up to 16, sums of 20-45 terms; distances through Gram chains, never through dense arrays
    def gram(A, B):
        w = np.ones((1, 1))
        for Ga, Gb in zip(A, B):
            w = np.einsum('ab,aic,bid->cd', w, Ga, Gb)
        return float(w[0, 0])
    for t in range(6 if ctx.tier == 'quick' else 40):
        d = int(rng.integers(6, 11))
        n = [int(x) for x in rng.integers(2, 9, size=d)]
        nt = int(rng.integers(20, 46))
        terms = [teneva.mul(teneva.rand(n, 1, seed=int(rng.integers(1 << 30))), float(2.0 ** (-0.7 * j))) for j in range(nt)]
        Ybig = terms[0]
        for T_ in terms[1:8]:
            Ybig = teneva.add(Ybig, T_)
        nY = np.sqrt(gram(Ybig, Ybig))
        for e_, cap_, eig_, stab_ in ((1e-2, 1e12, True, False), (1e-4, 1e12, False, True), (1e-1, 3, False, False), (1e-3, 5.5, True, True)):
            Z = teneva.truncate(Ybig, e_, cap_, is_eigh=eig_, use_stab=stab_)
            ctx.case(key=('large-truncate', n, e_, cap_, eig_, stab_, t), nontrivial=True)
            okz = F.is_wellformed(Z, n)
            if okz:
                rz = [G.shape[2] for G in Z[:-1]]
                ry = [G.shape[2] for G in Ybig[:-1]]
                okz = all(1 <= a <= max(1, int(cap_)) and a <= b for a, b in zip(rz, ry))
                if okz and cap_ > 100:
                    err = np.sqrt(max(0., gram(Z, Z) - 2 * gram(Z, Ybig) + gram(Ybig, Ybig)))
                    okz = err <= e_ * nY * (1 + 1e-6) + 1e-7 * nY
            ctx.check(okz, 'truncate:large', 'truncate(e=%g, r=%s, is_eigh=%s, use_stab=%s) on a rank-8 tensor with d=%d: rank caps or the error bound e*||Y|| violated' % (e_, cap_, eig_, stab_, d))
        # add_many over more than two rounding periods (default trunc_freq = 15): bound per rounding step, cap at the end
        e_ = 1e-3
        S = teneva.add_many(terms, e=e_, r=6)
        ref_terms = terms
        ctx.case(key=('large-add_many', n, nt, t), nontrivial=True)
        oks = F.is_wellformed(S, n) and max(G.shape[2] for G in S[:-1]) <= 6
        S2 = teneva.add_many(terms, e=e_, r=1e12)
        if oks and F.is_wellformed(S2, n):
            Yall = ref_terms[0]
            for T_ in ref_terms[1:]:
                Yall = teneva.add(Yall, T_)
            nA = np.sqrt(gram(Yall, Yall))
            err2 = np.sqrt(max(0., gram(S2, S2) - 2 * gram(S2, Yall) + nA * nA))
            nround = nt // 15 + 1
            oks = err2 <= 2.5 * nround * e_ * nA + 1e-7 * nA          # every partial sum is at most ~2.5 times the total here
        ctx.check(oks, 'add_many:large', 'add_many of %d terms (d=%d): rank cap at the end or the accumulated error bound violated' % (nt, d))
    # stabilised rounding of tensors whose accumulated exponent is outside the double range (every core times 2^450 / 2^-150;
    # d = 3, 4): the exact thresholds of the same Rounding cases, compared through normalised Gram chains
    from . import c16
    c16.replay_rounding_stab(ctx, np.random.default_rng(ctx.seed + 13), ctx.tier == 'quick', count=150 if ctx.tier == 'quick' else 2000)
    # add_many as a behaviour of AddMany.tla: exhaustive small scope + simulated larger scopes
    from . import tlc
    quick = ctx.tier == 'quick'
    res = tlc.run('AddMany', cfg='AddMany_q.cfg', workers=16, timeout=1800)
    ctx.add_tlc(res, 'AddMany exhaustive (2 entries, 3-4 signed terms): AccumulatedBound, IntermediateBound, RankCap')
    replay_add_many_model(ctx, res.json, rng, 600 if quick else 6000, 'addmany-q')
    if not quick:
        res = tlc.run('AddMany', cfg='AddMany_t.cfg', workers=16, timeout=3000)
        ctx.add_tlc(res, 'AddMany exhaustive (3 entries, 4 signed terms), invariants only')
    for cfg in ('AddMany_sim.cfg', 'AddMany_sim4.cfg'):
        res = tlc.run('AddMany', cfg=cfg, workers=8, timeout=1800, simulate='num=%d' % (400 if quick else 5000), depth=20, seed=ctx.seed + 3)
        ctx.add_tlc(res, 'AddMany simulation %s (up to 4 entries, 4-7 signed terms)' % cfg)
        rows = list({repr((r_['ent'], r_['terms'], r_['fr'], r_['cap'], r_['ep'])): r_ for r_ in res.json}.values())
        replay_add_many_model(ctx, rows, rng, len(rows), 'addmany-sim')
