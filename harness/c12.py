"""C12 - Chebyshev interpolation is exact on polynomials of degree below the grid size.

Cheb.tla works in coefficient space with exact rationals: value at rational
points, integral over integer boxes, derivative coefficients (and the lemma
integral of f' = f(1) - f(-1)).  Every emitted case (integer coefficient TT,
ranks 1-2, d = 1..4) is replayed through the TT routines and the dense
routines, which are two implementations of the same actions and must both
conform.  Node values are irrational: "sampled" registers go through numpy's
chebval (mirror) whose agreement with TLC's rationals is checked on every
emitted rational point in the same run.
"""
from fractions import Fraction

import numpy as np

import teneva

from . import families as F
from . import tlc
from .c01 import cores_of


def dev(a, b):
    """largest absolute deviation; infinite when the shapes differ (a wrong shape is a wrong answer, not a harness error)"""
    a, b = np.asarray(a, dtype=float), np.asarray(b, dtype=float)
    if a.shape != b.shape:
        return float('inf')
    return float(np.max(np.abs(a - b))) if a.size else 0.


def cheb_eval_dense(C, T):
    """mirror: evaluate the coefficient tensor C at reference points T (m x d)"""
    out = np.empty(len(T))
    for s, t in enumerate(T):
        Q = C
        for j in range(C.ndim):
            Q = np.tensordot(np.polynomial.chebyshev.chebvander(t[j], C.shape[j] - 1)[0], Q, axes=([0], [0]))
        out[s] = Q
    return out


def run(ctx):
    ctx.rule = ('cases = integer coefficient tensors emitted by TLC x (points, boxes, grids, routines); distinct = (tensor, routine, box / grid); '
                'non-trivial = d >= 2 or rank >= 2 or a non-symmetric box')
    ctx.assumptions = ['rational points of the reference cube are mapped affinely into the box in floating point (1e-12 relative)',
                       'node values (cosines) go through the chebval mirror, cross-checked against TLC on every rational point',
                       'tolerance 1e-10 * sum|c| * growth(n); differentiation matrices 1e-9 * n^4']
    quick = ctx.tier == 'quick'
    res = tlc.run('Cheb', cfg='Cheb.cfg' if quick else 'Cheb_t.cfg', workers=8, timeout=3000)
    ctx.add_tlc(res, 'Cheb: exact values / integrals / derivative coefficients of every enumerated coefficient tensor')
    boxes = [[(-1, 1)], [(0, 2)], [(-3, 5), (-2, 2)], [(-2, 2)], [(1, 4), (-1, 1), (0, 1)]]
    # boxes whose bounds are not binary fractions (the affine maps round): integrals follow exactly from the reference cube
    extra_boxes = [[(0.1, 0.7)], [(-1.3, 2.1), (-0.1, 0.3)], [(-0.7, 0.7)]]
    rng = np.random.default_rng(ctx.seed)
    mirror_bad = 0
    for row in res.json:
        n = row['n']
        d = len(n)
        A = cores_of(row['cores'])
        C = np.array(row['coef'], dtype=float).reshape(n)
        sc = float(np.abs(C).sum()) + 1.
        tol = 1e-10 * sc * max(n) ** 2
        keys = sorted(row['pts'])
        Tref = np.array([[Fraction(p[0], p[1]) for p in row['pts'][k]] for k in keys], dtype=object)
        Tf = Tref.astype(float)
        exact = np.array([float(Fraction(row['evals'][k][0], row['evals'][k][1])) for k in keys])
        # mirror cross-check (B3): numpy chebval must agree with TLC on every rational point
        if np.abs(cheb_eval_dense(C, Tf) - exact).max() > 1e-12 * sc:
            mirror_bad += 1
        case = {'cores': row['cores'], 'n': n}
        nontriv = d >= 2 or max(G.shape[2] for G in A) >= 2
        for bi, box in enumerate(boxes + extra_boxes):
            a = np.array([box[j % len(box)][0] for j in range(d)], dtype=float)
            b = np.array([box[j % len(box)][1] for j in range(d)], dtype=float)
            if bi >= len(boxes):
                vol = Fraction(1)
                for j in range(d):
                    vol *= (Fraction(str(box[j % len(box)][1])) - Fraction(str(box[j % len(box)][0]))) / 2
                iex = Fraction(row['ints'][0][0], row['ints'][0][1]) * vol
                row['ints'].append([iex.numerator, iex.denominator])
            X = np.clip(a + (Tf + 1.) / 2. * (b - a), a, b)      # the affine map may round a boundary point one ulp outside the box
            sym = bool(np.all(a == -b))
            ctx.case(key=('cheb', row['cores'], bi), nontrivial=nontriv or not sym,
                     sample={'n': n, 'coef': row['coef'], 'box': box, 'points': [row['pts'][k] for k in keys[:2]], 'values': [row['evals'][k] for k in keys[:2]],
                             'integral': row['ints'][bi]} if bi == 2 and d == 2 else None)
            if d >= 2:
                # --- evaluation (TT), scalar / per-dimension box arguments, single point vs batch
                y1 = teneva.func_get(X, A, a, b)
                ctx.check(dev(y1, exact) <= tol, 'func_get:value', 'func_get differs from the exact polynomial value by %.2e (n=%s, box %s)' % (dev(y1, exact), n, box), case=case)
                if len(box) == 1:
                    y1s = teneva.func_get(X, A, float(a[0]), float(b[0]))
                    ctx.check(np.array_equal(y1s, y1), 'func_get:scalar-box', 'scalar and per-dimension box arguments disagree', case=case)
                y0 = teneva.func_get(X[0], A, a, b)
                ctx.check(np.ndim(y0) == 0 and abs(y0 - exact[0]) <= tol, 'func_get:single', 'single-point evaluation differs', case=case)
                # --- integral (TT, any box)
                I1 = teneva.func_sum(A, a, b)
                Iex = float(Fraction(row['ints'][bi][0], row['ints'][bi][1]))
                ctx.check(abs(I1 - Iex) <= tol * float(np.prod(b - a)), 'func_sum:value', 'func_sum = %r, exact integral %r (n=%s box %s)' % (I1, Iex, n, box), case=case)
                # --- linear in the coefficients: an exact power of two in one core (values ~1e-12 / 1e+18) scales every answer
                if bi in (0, 2):
                    for sp in (-40, 60):
                        As_ = [G * (2.0 ** sp if k_ == (bi % d) else 1.) for k_, G in enumerate(A)]
                        ys_ = teneva.func_get(X, As_, a, b)
                        Is_ = teneva.func_sum(As_, a, b)
                        ctx.check(np.abs(ys_ / 2.0 ** sp - exact).max() <= tol and abs(Is_ / 2.0 ** sp - Iex) <= tol * float(np.prod(b - a)), 'func_get:scale',
                                  'coefficients times 2^%d: values / integral are not 2^%d times the original ones (n=%s box %s)' % (sp, sp, n, box), case=case)
                # --- points outside the box receive the fill value (float, int, nan fill values)
                Xo = X.copy()
                Xo[::2, 0] = b[0] + 0.5
                Xo[1::4, -1] = a[-1] - 1e-3
                outside = (Xo > b).any(axis=1) | (Xo < a).any(axis=1)
                for z in (0., -1, 7, 2.5, np.nan):
                    yo = teneva.func_get(Xo, A, a, b, z=z)
                    inside_ref = exact.copy()
                    okz = np.allclose(yo[~outside], inside_ref[~outside], atol=tol, rtol=0) and \
                        (np.all(np.isnan(yo[outside])) if isinstance(z, float) and np.isnan(z) else np.all(yo[outside] == z))
                    ctx.check(bool(okz), 'func_get:fill', 'points outside the box / inside the box wrong with fill value z=%r' % (z,), case=case)
                    if bi == 0 and not (isinstance(z, float) and np.isnan(z)):
                        # the reference cube is also the default box: every way of not naming it, with the fill requested explicitly
                        for form, kw in (('no box', {}), ('a only', dict(a=-1.)), ('b only', dict(b=1.)), ('None, None', dict(a=None, b=None))):
                            yo2 = teneva.func_get(Xo, A, z=z, skip_out=True, **kw)
                            ok2 = np.allclose(yo2[~outside], inside_ref[~outside], atol=tol, rtol=0) and np.all(yo2[outside] == z)
                            ctx.check(bool(ok2), 'func_get:fill', 'func_get(skip_out=True, %s): points outside the default box do not receive the fill value z=%r' % (form, z), case=case)
            # --- dense routines (any d >= 1)
            y2 = teneva.func_get_full(X, C.copy(), a, b)
            ctx.check(dev(y2, exact) <= tol, 'func_get_full:value', 'func_get_full differs from the exact value by %.2e (n=%s box %s)' % (dev(y2, exact), n, box), case=case)
            raised = False
            try:
                I2 = teneva.func_sum_full(C.copy(), a, b)
            except ValueError:
                raised = True
            if sym:
                Iex = float(Fraction(row['ints'][bi][0], row['ints'][bi][1]))
                ctx.check((not raised) and abs(I2 - Iex) <= tol * float(np.prod(b - a)), 'func_sum_full:value', 'func_sum_full wrong on a symmetric box %s' % box, case=case)
            else:
                ctx.check(raised, 'func_sum_full:box', 'func_sum_full must reject the non-symmetric box %s with ValueError' % box, case=case)
        # --- boxes that are symmetric only approximately (one bound off by a relative 1e-9 .. 1e-5, magnitudes 1 and 250000):
        # the dense integration routine either rejects them with ValueError or - if it accepts one - returns the integral
        # over THAT box (half-widths (b - a) / 2)
        wts_ = [np.array([0. if j_ % 2 else 2. / (1. - j_ * j_) for j_ in range(k_)]) for k_ in n]
        for s_ in (1., 250000.):
            for dl_ in (9e-6, 1e-6, -1e-7, 1e-9):
                j_ = int(rng.integers(d))
                a_, b_ = -s_ * np.ones(d), s_ * np.ones(d)
                b_[j_] = s_ * (1. + dl_)
                Iref, Iabs = np.array(C, dtype=float), np.abs(np.array(C, dtype=float))
                for k_ in range(d):
                    Iref = np.tensordot(wts_[k_] * (b_[k_] - a_[k_]) / 2., Iref, axes=(0, 0))
                    Iabs = np.tensordot(np.abs(wts_[k_]) * (b_[k_] - a_[k_]) / 2., Iabs, axes=(0, 0))
                ctx.case(key=('near-symmetric-box', tuple(n), s_, dl_, j_), nontrivial=True)
                try:
                    I3 = teneva.func_sum_full(np.array(C, dtype=float), a_, b_)
                except ValueError:
                    continue
                ctx.check(abs(I3 - float(Iref)) <= 1e-10 * float(Iabs) + 1e-300, 'func_sum_full:box',
                          'func_sum_full accepts the box a=%s, b=%s (not symmetric) and returns %r, the integral over this box is %r' % (a_.tolist(), b_.tolist(), I3, float(Iref)))
        # --- re-sampling and interpolation: Interp(Sample_m(c)) = pad(c)
        for m_ in ([n, [k + 1 for k in n], [2 * k for k in n]] if True else []):
            if d >= 2:
                Yv = teneva.func_gets(A, np.array(m_))
                grid = [np.cos(np.pi * np.arange(k) / (k - 1)) for k in m_]
                Xg = np.array(np.meshgrid(*grid, indexing='ij')).reshape(d, -1).T
                ref = cheb_eval_dense(C, Xg).reshape(m_)
                ctx.check(F.is_wellformed(Yv, m_) and dev(F.dense(Yv), ref) <= tol, 'func_gets:values',
                          'values on the new grid %s differ from the polynomial' % m_, case=case)
                Ab = teneva.func_int(Yv)
                pad = np.zeros(m_)
                pad[tuple(slice(0, k) for k in n)] = C
                ctx.check(F.is_wellformed(Ab, m_) and dev(F.dense(Ab), pad) <= tol, 'func_int:pad',
                          'func_int(func_gets(A, m=%s)) is not the zero-padded coefficient tensor' % m_, case=case)
            Yd = teneva.func_gets_full(C.copy(), -1., 1., np.array(m_))
            grid = [np.cos(np.pi * np.arange(k) / (k - 1)) for k in m_]
            Xg = np.array(np.meshgrid(*grid, indexing='ij')).reshape(d, -1).T
            ref = cheb_eval_dense(C, Xg).reshape(m_)
            ctx.check(Yd.shape == tuple(m_) and dev(Yd, ref) <= tol, 'func_gets_full:values', 'dense re-sampling on grid %s differs' % m_, case=case)
            # the node values do not depend on the box the nodes are mapped into (including the end nodes a and b themselves)
            for (a1, b1) in ((0.1, 0.7), (-0.1, 0.3), (-1.3, 2.1), (0., 2.), (-3., 5.)):
                Yb = teneva.func_gets_full(C.copy(), a1, b1, np.array(m_))
                ctx.check(Yb.shape == tuple(m_) and dev(Yb, ref) <= tol, 'func_gets_full:values',
                          'dense re-sampling on grid %s over the box [%s, %s] differs from the polynomial values by %.3g' % (m_, a1, b1, dev(Yb, ref) if Yb.shape == tuple(m_) else -1), case=case)
            Cd = teneva.func_int_full(Yd)
            pad = np.zeros(m_)
            pad[tuple(slice(0, k) for k in n)] = C
            ctx.check(dev(Cd, pad) <= tol, 'func_int_full:pad', 'func_int_full(func_gets_full(C, m=%s)) is not the zero-padded coefficient tensor' % m_, case=case)
            ctx.case(key=('resample', row['cores'], m_), nontrivial=nontriv)
        # --- differentiation matrices (1-D)
        if d == 1 and row['diff']:
            dcoef = np.array([float(Fraction(p[0], p[1])) for p in row['diff']])
            for (a1, b1) in ((-1., 1.), (0., 2.), (-3., 5.)):
                for nn in (n[0], n[0] + 2):
                    if nn < 2:
                        continue
                    tn = np.cos(np.pi * np.arange(nn) / (nn - 1))
                    vals = np.polynomial.chebyshev.chebval(tn, C)
                    Ds = teneva.func_diff_matrix(a1, b1, nn, m=3)
                    cur = C.copy()
                    ok = True
                    for order in range(1, 4):
                        cur = np.polynomial.chebyshev.chebder(cur) if len(cur) > 1 else np.zeros(1)
                        refv = np.polynomial.chebyshev.chebval(tn, cur) * (2. / (b1 - a1)) ** order
                        if order == 1:
                            pad_d = np.zeros(max(len(dcoef), 1))
                            pad_d[:len(cur)] = cur
                            if dev(pad_d, dcoef) > 1e-12 * sc:
                                mirror_bad += 1
                        got = Ds[order - 1] @ vals
                        if dev(got, refv) > 1e-9 * sc * nn ** 4 * (2. / (b1 - a1)) ** order:
                            ok = False
                            ctx.violation('func_diff_matrix:order%d' % order, 'derivative #%d of a degree-%d polynomial wrong on [%g, %g], n=%d: err %.2e'
                                          % (order, n[0] - 1, a1, b1, nn, dev(got, refv)), case=case)
                    D1 = teneva.func_diff_matrix(a1, b1, nn)
                    ctx.check(np.allclose(D1, Ds[0]), 'func_diff_matrix:m1', 'm=1 result differs from the first matrix of the m=3 list', case=case)
                    # the matrices belong to the caller (boundary rows are typically overwritten in place): whatever is done to
                    # them, the next request with the same arguments must return the exact matrices again
                    keep1, keep3 = D1.copy(), [M_.copy() for M_ in Ds]
                    D1[0, :] = 0.
                    D1[0, 0] = 1.
                    for M_ in Ds:
                        M_ *= -3.
                    D1b = teneva.func_diff_matrix(a1, b1, nn)
                    Dsb = teneva.func_diff_matrix(a1, b1, nn, m=3)
                    okb = dev(D1b, keep1) == 0 and len(Dsb) == 3 and all(dev(x_, y_) == 0 for x_, y_ in zip(Dsb, keep3))
                    ctx.check(okb, 'func_diff_matrix:again', 'after the caller edited earlier results in place, func_diff_matrix(%g, %g, %d) no longer returns the exact matrices' % (a1, b1, nn), case=case)
                    ctx.case(key=('diff', row['cores'], a1, nn), nontrivial=True)
    if mirror_bad:
        raise tlc.TlcError('numpy chebval / chebder mirror disagrees with TLC on %d cases' % mirror_bad)
    # --- "outside the box" is exact: a point beyond a bound by any representable amount (one ulp, 1e-17, 1e-40 next to a bound
    #     at 0) receives the fill value, in the TT and in the dense routine alike
    for t in range(6 if quick else 30):
        d = 2
        n = [3, 4]
        A = teneva.rand(n, 2, seed=t)
        Cd = F.dense(A)
        for (a1, b1) in ((0., 1.), (-1., 0.), (0., 0.25), (-0.125, 0.), (0.3, 0.7), (-1., 1.)):
            a_, b_ = np.array([a1, a1]), np.array([b1, b1])
            mid = 0.5 * (a1 + b1)
            up = (lambda v: 1e-90 if v == 0. else np.nextafter(v, np.inf))       # (the routines use an absolute guard of 1e-99)
            dn = (lambda v: -1e-90 if v == 0. else np.nextafter(v, -np.inf))
            outs = [up(b1), dn(a1), (0.3 - 3 * 0.1) if a1 == 0. else dn(a1), 1e-40 if b1 == 0. else up(b1), -1e-17 if a1 == 0. else dn(a1), b1 + 1e-3, a1 - 1e-3]
            Xo = np.array([[o_, mid] for o_ in outs] + [[mid, o_] for o_ in outs] + [[a1, b1], [mid, mid]])
            inside = np.array([(x_ >= a_).all() and (x_ <= b_).all() for x_ in Xo])
            for z in (-7.5, 0.):
                yt = np.asarray(teneva.func_get(Xo, A, a_, b_, z=z))
                yd = np.asarray(teneva.func_get_full(Xo, Cd.copy(), a_, b_, z=z))
                ctx.case(key=('outside-exact', a1, b1, z, t), nontrivial=True)
                okx = np.all(yt[~inside] == z) and np.all(yd[~inside] == z) and dev(yt[inside], yd[inside]) <= 1e-9 * (1 + np.abs(Cd).sum())
                if z != 0.:
                    okx = okx and np.all(yt[inside] != z) and np.all(yd[inside] != z)
                ctx.check(bool(okx), 'func_get:fill', 'box [%g, %g]: points outside by an ulp / 1e-17 / 1e-40 do not all receive the fill value %g (TT %s, dense %s)'
                          % (a1, b1, z, np.array2string(yt[~inside][:6], precision=3), np.array2string(yd[~inside][:6], precision=3)))
    # --- one step beyond the tabulated grids: 17..65 nodes per mode, polynomial of degree n_k - 1 with coefficients of
    #     decaying size (values ~1): coefficients -> values on the grid -> coefficients, evaluation at random points, integral
    for t in range(4 if quick else 30):
        d = 2 + t % 2
        n = [int(x) for x in rng.choice([17, 24, 33, 48, 65], size=d)]
        A = [rng.normal(size=(1 if k == 0 else 2, n[k], 2 if k < d - 1 else 1)) / (1. + np.arange(n[k]))[None, :, None] for k in range(d)]
        Cl = F.dense(A)
        box = [(-1., 1.), (0.5, 2.25), (-3., 5.)][t % 3]
        a_, b_ = np.array([box[0]] * d), np.array([box[1]] * d)
        Xl = rng.uniform(box[0], box[1], size=(30, d))
        Tl = (2. * Xl - (a_ + b_)) / (b_ - a_)
        refl = cheb_eval_dense(Cl, Tl)
        scl = float(np.abs(Cl).sum())
        ctx.case(key=('large-grid', n, box), nontrivial=True)
        okl = dev(teneva.func_get(Xl, A, a_, b_), refl) <= 1e-10 * scl
        Yl = teneva.func_gets(A)
        Al = teneva.func_int(Yl)
        okl2 = F.is_wellformed(Al, n) and dev(F.dense(Al), Cl) <= 1e-10 * scl
        c0 = [np.array([(0. if j % 2 else 2. / (1 - j * j)) for j in range(k)]) for k in n]         # integrals of T_j over [-1, 1]
        Iref = Cl
        for k in range(d):
            Iref = np.tensordot(c0[k], Iref, axes=([0], [0]))
        Iref = float(Iref) * float(np.prod((b_ - a_) / 2.))
        okl3 = abs(teneva.func_sum(A, a_, b_) - Iref) <= 1e-10 * scl * float(np.prod(b_ - a_))
        ctx.check(okl, 'func_get:value', 'grid %s, box %s: func_get differs from the polynomial by %.3g' % (n, box, dev(teneva.func_get(Xl, A, a_, b_), refl)))
        ctx.check(okl2, 'func_int:pad', 'grid %s: func_int(func_gets(A)) is not A' % n)
        ctx.check(okl3, 'func_sum:value', 'grid %s, box %s: func_sum differs from the exact integral' % (n, box))
    # --- linearity, general bases, sine kind (float, sampled)
    for t in range(10 if quick else 80):
        d = int(rng.integers(2, 4))
        n = [int(x) for x in rng.integers(2, 6, size=d)]
        Y1 = teneva.rand(n, 2, seed=int(rng.integers(1 << 30)))
        Y2 = teneva.rand(n, 1, seed=int(rng.integers(1 << 30)))
        al, be = 1.5, -0.25
        L = teneva.func_int(teneva.add(teneva.mul(Y1, al), teneva.mul(Y2, be)))
        R = teneva.add(teneva.mul(teneva.func_int(Y1), al), teneva.mul(teneva.func_int(Y2), be))
        ctx.case(key=('linear', t, ctx.seed), nontrivial=True)
        ctx.check(dev(F.dense(L), F.dense(R)) <= 1e-12 * (1 + np.abs(F.dense(R)).max()), 'func_int:linear', 'coefficient transform is not linear')
        back = teneva.func_gets(teneva.func_int(Y1))
        ctx.check(dev(F.dense(back), F.dense(Y1)) <= 1e-12 * (1 + np.abs(F.dense(Y1)).max()), 'func_gets:inverse', 're-sampling on the same grid does not invert the transform')
        backs = teneva.func_gets(teneva.func_int(Y1, kind='sin'), kind='sin')
        ctx.check(dev(F.dense(backs), F.dense(Y1)) <= 1e-11 * (1 + np.abs(F.dense(Y1)).max()), 'func_int:sin', 'sine kind: transform / re-sampling pair is not the identity')
        # dense and TT agree
        Cd = teneva.func_int_full(F.dense(Y1))
        ctx.check(dev(Cd, F.dense(teneva.func_int(Y1))) <= 1e-12 * (1 + np.abs(Cd).max()), 'func_int_full:agree', 'dense and TT coefficient transforms disagree')
        # custom basis fitted by least squares reproduces functions in its span
        nb = min(n) if min(n) >= 2 else 2
        npts = nb + int(rng.integers(0, 4))
        Xn = np.sort(rng.uniform(-1, 1, size=npts))
        coefs = teneva.rand([nb] * d, 2, seed=int(rng.integers(1 << 30)))
        for basis, name in ((lambda x: teneva.func_basis(x, nb), 'chebyshev'), (lambda x: np.vander(x, nb, increasing=True).T, 'monomial')):
            B = basis(Xn).T                       # points x basis
            Yvals = [np.einsum('pj,rjq->rpq', B, G) for G in coefs]
            try:
                Afit = teneva.func_int_general(Yvals, Xn, basis)
                okf = F.is_wellformed(Afit, [nb] * d) and dev(F.dense(Afit), F.dense(coefs)) <= 1e-7 * (1 + np.abs(F.dense(coefs)).max())
            except Exception as ex:
                okf = False
            ctx.check(okf, 'func_int_general:span', 'least-squares fit in a custom %s basis (%d functions, %d points) does not reproduce a function in its span' % (name, nb, npts))
            # per-core sample points (2-D X with different rows)
            X2 = np.array([np.sort(rng.uniform(-1, 1, size=npts)) for _ in range(d)])
            Yv2 = [np.einsum('pj,rjq->rpq', basis(X2[k]).T, G) for k, G in enumerate(coefs)]
            try:
                A2 = teneva.func_int_general(Yv2, X2, basis)
                ok2 = F.is_wellformed(A2, [nb] * d) and dev(F.dense(A2), F.dense(coefs)) <= 1e-7 * (1 + np.abs(F.dense(coefs)).max())
            except Exception:
                ok2 = False
            ctx.check(ok2, 'func_int_general:span', 'fit with per-core sample points (2-D X) in a custom %s basis does not reproduce a function in its span' % name)
