"""Recorder and drivers for teneva.cross (properties C05, C06).

Events are captured through seams the library already offers: the objective,
the func= replacement argument, the cb= callback and the module-level function
teneva.cross._iter (looked up at call time).  No source hook is needed.
"""
import importlib
import itertools
import json

import numpy as np

import teneva

from . import common

C = importlib.import_module('teneva.cross')
NONE = []


def dense(Y):
    """Independent dense export (einsum chain, not teneva.full)."""
    Z = np.asarray(Y[0])[0]                      # n0 x r
    for G in Y[1:]:
        Z = np.einsum('...a,aib->...ib', Z, np.asarray(G))
    return Z[..., 0]


def make_target(n, rho, seed):
    rng = np.random.default_rng(seed)
    d = len(n)
    r = [1] + [rho] * (d - 1) + [1]
    cores = [rng.uniform(0.5, 1.5, size=(r[k], n[k], r[k + 1])) * rng.choice([-1., 1.], size=(r[k], n[k], r[k + 1]))
             for k in range(d)]
    F = dense(cores)
    return cores, F


def true_ranks(n, rho):
    d = len(n)
    out = [1]
    for k in range(1, d):
        out.append(int(min(rho, np.prod(n[:k]), np.prod(n[k:]))))
    return out + [1]


def record(n, rho, r0, drmin, drmax, nswp=None, cache=False, m=None, none_at=None, cb_at=None,
           seed=1, mcs=10**5, e=None, e_vld=None, vld=False, tau=1.1, return_Y=False, pre=None, zeros=False, ydtype=None, fscale_pow=0, y0_eps=None):
    """Run teneva.cross once and return the trace (cfg + events)."""
    # Seams: C._iter (row choices) and C._func (batch requests).  If a refactoring removed one of them the recorder
    # degrades instead of failing: without _iter the trace carries no iter events (validated against the count
    # abstraction with silent iteration steps); without _func only objective calls, callbacks and the return are seen.
    has_iter, has_func = hasattr(C, '_iter'), hasattr(C, '_func')
    cores, F = make_target(n, rho, seed)
    d = len(n)
    generic = True
    if fscale_pow:
        F = F * 2.0 ** fscale_pow          # the same target times an exact power of two: same index sets, same counts
    if ydtype is not None:
        # an objective that answers in another numeric type (float32 / float16 / int64 / bool-free ints): the target has
        # small integer entries, exactly representable in every such type, so the objective itself is unchanged
        rng_ = np.random.default_rng(seed + 31)
        r_ = [1] + [rho] * (d - 1) + [1]
        cores = [rng_.integers(1, 3, size=(r_[k], n[k], r_[k + 1])) * rng_.choice([-1, 1], size=(r_[k], n[k], r_[k + 1])) for k in range(d)]
        F = dense([c_.astype(float) for c_ in cores])
        # integer-valued targets are not generic (many singular minors): no exactness claim, only transparency / counts / types
        generic = False
    if zeros:
        # an objective that is exactly 0.0 at many indices (no exactness claim for such a target)
        F = F.copy()
        F[np.random.default_rng(seed + 5).random(F.shape) < 0.4] = 0.
        if not np.any(F):
            # (tiny shapes) an objective that vanishes everywhere is another family: keep one entry
            F[tuple(0 for _ in F.shape)] = 1.
    Y0 = teneva.rand(n, r0, seed=seed + 1000)
    if y0_eps is not None:
        # an initial tensor that is already close to the target (relative error ~ y0_eps, ranks rho)
        rng0 = np.random.default_rng(seed + 2000)
        Y0 = [np.array(c_, dtype=float) * (1. + y0_eps * rng0.normal(size=np.shape(c_))) for c_ in cores]
    ev = []
    ncall = [0]
    asked = []

    def f(I):
        ncall[0] += 1
        I = np.asarray(I)
        wf = bool(I.ndim == 2 and I.shape[1] == d and I.dtype.kind in 'iu')
        none = none_at is not None and ncall[0] == none_at
        ev.append(dict(ev='fcall', I=I.tolist(), none=bool(none), wf=wf))
        if none:
            return None
        asked.append(I.copy())
        if ydtype is not None:
            return np.asarray(F[tuple(I.T)]).astype(ydtype)
        return F[tuple(I.T)]

    def func(f_, Ig, Ir, Ic, info, cache_):
        ev.append(dict(ev='req', n=int(Ig.shape[0]), Ir=NONE if Ir is None else Ir.tolist(),
                       Ic=NONE if Ic is None else Ic.tolist(), m=int(info['m']), mc=int(info['m_cache']),
                       stop=info['stop'] or 'none'))
        Z = C._func(f_, Ig, Ir, Ic, info, cache_)
        ev.append(dict(ev='reqdone', ok=Z is not None, m=int(info['m']), mc=int(info['m_cache']),
                       stop=info['stop'] or 'none'))
        return Z

    orig = getattr(C, '_iter', None)

    def it(Z, Ig, I, *a, **k):
        G, R, Inew = orig(Z, Ig, I, *a, **k)
        ltr = k['ltr'] if 'ltr' in k else (a[5] if len(a) > 5 else True)
        ev.append(dict(ev='iter', ltr=bool(ltr), Inew=np.asarray(Inew).tolist()))
        return G, R, Inew

    if vld:
        rng = np.random.default_rng(seed + 7)
        I_vld = np.stack([rng.integers(0, k, size=12) for k in n], axis=1)
        y_vld = F[tuple(I_vld.T)]
    else:
        I_vld = y_vld = None

    def hit(val, thr):
        return bool(thr is not None and val >= 0 and val <= thr and not np.isinf(val))

    state = {'Ylast': None, 'conv_ok': True, 'evld_ok2': True}

    def relerr(Y, I, y):
        Fd = dense(Y)
        return float(np.linalg.norm(Fd[tuple(np.asarray(I).T)] - y) / np.linalg.norm(y))

    def cb(Y, info, opts):
        ret = cb_at is not None and info['nswp'] == cb_at
        # info["e"] must be the distance to the tensor of the previous sweep
        Yold = opts.get('Yold')
        if Yold is not None and info['nswp'] == 1:
            # the tensor "of the previous sweep" of the first sweep is the initial tensor itself (the pre-iteration only
            # re-gauges it)
            b0, bY0 = dense(Yold), dense(Y0)
            if not np.abs(b0 - bY0).max() <= 1e-9 * (np.abs(bY0).max() + 1e-300):
                state['conv_ok'] = False
        if Yold is not None:
            a, b = dense(Y), dense(Yold)
            ref = np.linalg.norm(a - b) / max(np.linalg.norm(b), 1e-300)
            # (a previous-sweep tensor of norm below 1e-100 makes accuracy() answer with its documented sentinel)
            if np.linalg.norm(b) > 1e-100 and not abs(info['e'] - ref) <= 1e-6 * ref + 3e-7:
                state['conv_ok'] = False
        if vld and not abs(info['e_vld'] - relerr(Y, I_vld, y_vld)) <= 1e-9:
            state['evld_ok2'] = False
        state['Ylast'] = [G.copy() for G in Y]
        ev.append(dict(ev='cb', nswp=int(info['nswp']), m=int(info['m']), mc=int(info['m_cache']),
                       ranks=[int(x) for x in teneva.ranks(Y)], ret=bool(ret),
                       ehit=hit(info['e'], e), vhit=hit(info['e_vld'], e_vld)))
        return ret

    info = {}
    c = {} if cache else None
    pre = [tuple(int(x) for x in p) for p in (pre or [])] if cache else []
    for p in pre:
        c[p] = float(F[p])
    if has_iter:
        C._iter = it
    degraded = None if has_iter and has_func else ('noiter' if has_func else 'nofunc')
    try:
        Y = teneva.cross(f, Y0, m=m, e=e, nswp=nswp, tau=tau, dr_min=drmin, dr_max=drmax, info=info, cache=c,
                         I_vld=I_vld, y_vld=y_vld, e_vld=e_vld, cb=cb, func=func if has_func else None, m_cache_scale=mcs)
    except Exception as ex:
        # whatever the interruption point, cross must RETURN a tensor: an exception is recorded as a failed return
        ev.append(dict(ev='raised', what='%s: %s' % (type(ex).__name__, str(ex)[:200])))
        cfg = dict(n=list(n), r0=[int(x) for x in teneva.ranks(Y0)], drmin=drmin, drmax=drmax,
                   nswp=-1 if nswp is None else nswp, mmax=-1 if m is None else int(m), cache=bool(cache), mcs=int(mcs),
                   hasE=e is not None, hasV=e_vld is not None, rho=[99] * (d + 1), pre=[])
        tr = dict(cfg=cfg, ev=ev, meta=dict(seed=seed, rho=rho, none_at=none_at, cb_at=cb_at, e=e, e_vld=e_vld, vld=vld, npre=0, raised=str(ex)[:200]))
        if degraded:
            tr['degraded'] = degraded
        info.setdefault('m', -1)
        if return_Y:
            return tr, info, ncall[0], None
        return tr, info, ncall[0]
    finally:
        if has_iter:
            C._iter = orig

    shapes_ok = all(isinstance(G, np.ndarray) and G.ndim == 3 and G.dtype == np.float64 for G in Y)
    finite = bool(shapes_ok and all(np.isfinite(G).all() for G in Y))
    chain = shapes_ok and all(Y[k].shape[2] == Y[k + 1].shape[0] for k in range(d - 1)) \
        and Y[0].shape[0] == 1 and Y[-1].shape[2] == 1
    stop = info['stop']
    e_ok = not (stop == 'e') or hit(info['e'], e)
    evld_ok = not (stop == 'e_vld') or hit(info['e_vld'], e_vld)
    if chain and finite:
        Fd = dense(Y)
        acc = float(np.linalg.norm(Fd - F) / np.linalg.norm(F))
        # effective rank recomputed from the definition
        nn = np.array([G.shape[1] for G in Y], dtype=float)
        rr = np.array([1] + [G.shape[2] for G in Y], dtype=float)
        if d == 2:
            er = rr[1]
        else:
            sz = np.dot(nn * rr[0:d], rr[1:])
            b = rr[0] * nn[0] + nn[d - 1] * rr[d]
            a = np.sum(nn[1:d - 1])
            er = (np.sqrt(b * b + 4 * a * sz) - b) / (2 * a)
        r_ok = bool(abs(info['r'] - er) <= 1e-9)
        if vld and not abs(info['e_vld'] - relerr(Y, I_vld, y_vld)) <= 1e-9:
            state['evld_ok2'] = False
        if not vld and info['e_vld'] != -1:
            state['evld_ok2'] = False
        # no sweep at all (nswp = 0, nothing interrupted before the first request was answered): the initial tensor comes back
        if stop == 'nswp' and info['nswp'] == 0 and not np.abs(Fd - dense(Y0)).max() <= 1e-9 * (np.abs(dense(Y0)).max() + 1e-300):
            state['conv_ok'] = False
        # early return: distance to the tensor of the last completed sweep
        if stop in ('m', 'func') and state['Ylast'] is not None:
            b_ = dense(state['Ylast'])
            ref = np.linalg.norm(Fd - b_) / max(np.linalg.norm(b_), 1e-300)
            if not abs(info['e'] - ref) <= 1e-6 * ref + 3e-7:
                state['conv_ok'] = False
    else:
        acc, r_ok = float('inf'), False
    cache_ok = True
    if cache:
        allI = np.vstack(asked) if asked else np.zeros((0, d), dtype=int)
        keys = set(map(tuple, allI.tolist())) | set(pre)
        cache_ok = (set(c.keys()) == keys and all(c[k_] == float(F[k_]) for k_ in keys)
                    and all(isinstance(k_, tuple) for k_ in c))
    ev.append(dict(ev='ret', stop=stop if stop else 'none', m=int(info['m']), mc=int(info['m_cache']), nswp=int(info['nswp']),
                   ranks=[1] + [int(G.shape[2]) for G in Y],
                   shape=[int(G.shape[1]) for G in Y], finite=finite and chain,
                   ncache=-1 if c is None else len(c), cache_ok=bool(cache_ok), e_ok=bool(e_ok),
                   evld_ok=bool(evld_ok and state['evld_ok2']), r_ok=r_ok, conv_ok=bool(state['conv_ok']),
                   acc_ok=bool(acc <= 1e-6), acc=acc))
    cfg = dict(n=list(n), r0=[int(x) for x in teneva.ranks(Y0)], drmin=drmin, drmax=drmax,
               nswp=-1 if nswp is None else nswp, mmax=-1 if m is None else int(m), cache=bool(cache), mcs=int(mcs),
               hasE=e is not None, hasV=e_vld is not None, rho=true_ranks(n, rho) if (not zeros and generic) else [99] * (d + 1),
               pre=[list(p) for p in dict.fromkeys(pre)])
    tr = dict(cfg=cfg, ev=ev, meta=dict(seed=seed, rho=rho, none_at=none_at, cb_at=cb_at, e=e, e_vld=e_vld, vld=vld, npre=len(pre)))
    if ydtype is not None:
        tr['meta']['ydtype'] = str(ydtype)
    if fscale_pow:
        tr['meta']['fscale_pow'] = fscale_pow
    if degraded:
        tr['degraded'] = degraded
    if return_Y:
        return tr, info, ncall[0], Y
    return tr, info, ncall[0]


BASE_CONFIGS = [
    # n, rho, r0, drmin, drmax, nswp
    ([2, 3, 2], 2, 1, 1, 1, 2),
    ([3, 2], 2, 2, 0, 0, 2),
    ([2, 1, 3, 2], 2, 1, 0, 2, 2),
    ([3, 3, 3], 2, 3, 1, 1, 1),
    ([2, 2, 2], 2, 1, 1, 2, 0),
    ([4, 3, 4], 2, 2, 0, 0, 3),
    ([3, 4], 3, 1, 1, 1, 3),
    ([3, 3, 3], 2, 4, 0, 0, 1),      # initial ranks above what the unfoldings can carry (clipped by the pre-iteration)
    ([4, 6], 3, 5, 0, 0, 2),
    ([2, 3, 2], 2, 1, 2, 2, 2),      # growth by two on nearly square unfoldings (fewer free rows than dr_min)
    ([3, 2], 2, 1, 2, 3, 2),
    ([3, 2, 5, 2], 1, 1, 0, 0, 4),   # rank one, fixed rank: evaluation / cache-hit counters (12, 12), (12, 36), (12, 60): m_cache = 5 m exactly after 3 sweeps
]


def fault_suite(n, rho, r0, drm, drM, nswp, cache, seed, dense_budgets=False):
    """All traces of one configuration: no fault, budgets, None positions, callback sweeps, conv."""
    out = []
    t, info, nc = record(n, rho, r0, drm, drM, nswp, cache, seed=seed)
    out.append(t)
    M = info['m']
    budgets = range(1, M + 2) if dense_budgets else sorted(set([1, 2, M // 3, M // 2, M - 1, M, M + 1]))
    for m in budgets:
        if m >= 1:
            out.append(record(n, rho, r0, drm, drM, nswp, cache, m=m, seed=seed)[0])
    d_ = len(n)
    # every call position when dense, otherwise the ends plus the first request of every sweep (2 d s + 1)
    nones = range(1, nc + 2) if dense_budgets else sorted(set([1, 2, nc // 2, nc, nc + 1] + [2 * d_ * s_ + 1 for s_ in range(1, 4)] + [2 * d_ * s_ for s_ in range(1, 4)]))
    for k in nones:
        if 1 <= k <= nc + 1:
            out.append(record(n, rho, r0, drm, drM, nswp, cache, none_at=k, seed=seed)[0])
    for s in range(1, (nswp or 0) + 1):
        out.append(record(n, rho, r0, drm, drM, nswp, cache, cb_at=s, seed=seed)[0])
    # an objective with exact zeros (a cached 0.0 is still a cache hit)
    out.append(record(n, rho, r0, drm, drM, max(2, nswp or 0), cache, seed=seed, zeros=True)[0])
    out.append(record(n, rho, r0, drm, drM, max(2, nswp or 0), cache, seed=seed, zeros=True, m=max(1, M // 2))[0])
    # the cache-convergence stop "m_cache > m_cache_scale * m" at and around equality: scale 0 (without a cache 0 > 0 never
    # holds), and every small scale (the counters of fixed-rank runs are integer multiples of each other, so ties occur)
    for mcs_ in (0, 1, 2, 3, 5) if cache else (0,):
        out.append(record(n, rho, r0, drm, drM, max(nswp or 0, 4) if drM == 0 else nswp, cache, mcs=mcs_, seed=seed)[0])
    # accuracy-driven stops
    out.append(record(n, rho, r0, drm, drM, 12, cache, e=1e-6, m=4000, seed=seed)[0])
    out.append(record(n, rho, r0, drm, drM, nswp, cache, e_vld=1e-8, vld=True, seed=seed)[0])
    out.append(record(n, rho, r0, drm, drM, nswp, cache, e=1e-6, vld=True, seed=seed)[0])
    out.append(record(n, rho, r0, drm, drM, None, cache, e_vld=10., vld=True, seed=seed)[0])   # met after pre-iteration
    # an initial tensor that is already close to the target (error ~1e-4): between the two thresholds in either order, and
    # with only one of them given (a threshold that is not given never stops the run; 'e_vld' is judged by e_vld only)
    for kw_ in (dict(e=1e-2, e_vld=1e-9), dict(e=1e-2), dict(e_vld=1e-2), dict(e_vld=1e-2, e=1e-9)):
        out.append(record(n, rho, rho, drm, drM, nswp, cache, vld=True, seed=seed, y0_eps=1e-4, **kw_)[0])
    # interruptions with validation data (info must describe the returned tensor)
    for mm in sorted(set([M // 4, M // 2, (3 * M) // 4, M - 1])):
        if mm >= 1:
            out.append(record(n, rho, r0, drm, drM, nswp, cache, m=mm, vld=True, seed=seed)[0])
    for k in sorted(set([nc // 3, (2 * nc) // 3, nc])):
        if k >= 1:
            out.append(record(n, rho, r0, drm, drM, nswp, cache, none_at=k, vld=True, seed=seed)[0])
    if cache:
        # dictionary that already holds values (e.g. reused from an earlier run)
        rng = np.random.default_rng(seed + 99)
        pre = [[int(rng.integers(0, k)) for k in n] for _ in range(5)]
        out.append(record(n, rho, r0, drm, drM, nswp, cache, pre=pre, seed=seed)[0])
        out.append(record(n, rho, r0, drm, drM, nswp, cache, pre=pre, m=max(1, M // 2), seed=seed)[0])
        full = [list(ix) for ix in itertools.product(*[range(k) for k in n])]
        out.append(record(n, rho, r0, drm, drM, nswp, cache, pre=full, seed=seed)[0])
    return out


def to_counts(tr):
    """Projection of a full trace onto the events of Trace_CrossCounts (sizes only)."""
    ev = []
    for e in tr['ev']:
        k = e['ev']
        if k == 'req':
            ev.append(dict(ev='req', n=e['n'], r1=max(1, len(e['Ir'])), r2=max(1, len(e['Ic'])), m=e['m'], mc=e['mc'], stop=e['stop']))
        elif k == 'fcall':
            ev.append(dict(ev='fcall', new=len(e['I']), none=e['none'], wf=e['wf']))
        elif k == 'iter':
            ev.append(dict(ev='iter', ltr=e['ltr'], q=len(e['Inew'])))
        elif k == 'ret':
            ev.append({kk: e[kk] for kk in ('ev', 'stop', 'm', 'mc', 'nswp', 'ranks', 'shape', 'finite', 'e_ok', 'evld_ok')})
        else:
            ev.append(dict(e))
    cfg = {kk: tr['cfg'][kk] for kk in ('n', 'r0', 'drmin', 'drmax', 'nswp', 'mmax', 'cache', 'mcs', 'hasE', 'hasV')}
    out = dict(cfg=cfg, ev=ev)
    if tr.get('degraded') == 'noiter':
        out['noiter'] = True
    return out


def strip(tr):
    """What goes to TLC (no floats TLC cannot read, no meta)."""
    ev = []
    for e in tr['ev']:
        e = {k: v for k, v in e.items() if k != 'acc'}
        ev.append(e)
    return dict(cfg=tr['cfg'], ev=ev)
