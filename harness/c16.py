"""C16 - stabilised arithmetic stays finite and correct where plain floats overflow.

Stab.tla: power-of-two family (rank-1 chains, run-length encoded blocks, d up
to thousands, total exponents to +-30000); the normal form (mantissa in [1,2),
integer exponent) of the exact scalar product is computed by TLC, with the
lemma that scaling a core by 2^t shifts the exponent and nothing else.
Replay compares teneva's (mantissa, exponent) pairs with exact big-integer
arithmetic: Fraction(v) * 2^p must equal the exact value.  Rank >= 2 members
and stabilised orthogonalisation / rounding go through an exact dyadic mirror
(Python Fractions) that is cross-checked against TLC on every emitted case.
"""
from fractions import Fraction
import math

import numpy as np

import teneva

from . import families as F
from . import tlc


def build(blocks, which):
    Y = []
    for bl in blocks:
        pat = np.array(bl[which], dtype=float).reshape(1, -1, 1) * 2.0 ** bl['sa' if which == 'a' else 'sb']
        for _ in range(bl['cnt']):
            Y.append(pat.copy())
    return Y


def exact_dot(blocks):
    """mirror: exact <Y1, Y2> as (Fraction odd-signed mantissa numerator, exponent of two)"""
    val = Fraction(1)
    e = 0
    for bl in blocks:
        t = sum(x * y for x, y in zip(bl['a'], bl['b']))
        val *= Fraction(t) ** bl['cnt']
        e += bl['cnt'] * (bl['sa'] + bl['sb'])
    return val, e


def normal_form(val, e):
    """(mantissa Fraction with 1 <= |m| < 2, exponent)"""
    if val == 0:
        return Fraction(0), 0
    a = abs(val)
    k = a.numerator.bit_length() - a.denominator.bit_length()
    if Fraction(2) ** k > a:
        k -= 1
    return val / Fraction(2) ** k, e + k


def frac_equal(v, p, mant, exp, rel=Fraction(1, 10**12)):
    """Fraction(v) * 2^p == mant * 2^exp up to rel"""
    lhs = Fraction(float(v))
    d = p - exp
    lhs = lhs * Fraction(2) ** d if d >= 0 else lhs / Fraction(2) ** (-d)
    return abs(lhs - mant) <= rel * abs(mant)


def entry_exp(Y, idx):
    """exact entry of a rank-1 chain as (Fraction, exponent) without overflow"""
    m = Fraction(1)
    e = 0
    for G, i in zip(Y, idx):
        x = float(G[0, i, 0])
        if x == 0.:
            return Fraction(0), 0
        fm, fe = math.frexp(x)
        m *= Fraction(fm)
        e += fe
    return m, e


def replay_rounding_stab(ctx, rng, quick, count=None):
    """Stabilised rounding at the thresholds: members of the distinct-last-index family (Rounding.tla, exact outcomes for
    every threshold T + 1/2 and cap) with every core scaled by 2^450 or 2^-150, so that the tensor or at least its squared norm is outside
    the double range.  Ranks must be the specification's, the discarded part (through Gram chains of the normalised
    cores) the specification's dropped energy."""
    from . import rounding as RD
    cases = RD.emit(ctx, 'Rounding_c02_q.cfg', 'Rounding rtl (thresholds for stabilised rounding far outside the double range)', workers=16)
    cases = [c for c in cases if not RD.tiered(c) and not any(o['tie'] for o in c['outcomes']) and c['N'] > 0]
    for j in rng.permutation(len(cases))[:(count or (500 if quick else 5000))]:
        case = cases[j]
        d = case['d']
        base, n = F.family_member(d, case['npre'], RD.phys_ent(case))
        base, Qs = F.apply_symmetries(base, n, rng, pad=False)
        # huge cores at will; the product of two adjacent tiny cores stays above core_stab's documented threshold 1e-100 (2^-332),
        # below which a core is handed through unscaled
        sh = [int(rng.choice([450, 430])) if j % 2 else -int(rng.choice([150, 160]))] * d
        S = sum(sh)
        Y = [G * 2.0 ** s_ for G, s_ in zip(base, sh)]
        N, T = float(case['N']), case['T']
        e = float(np.sqrt((2 * T + 1) * (d - 1) / (2.0 * N)))
        cap = case['cap'] if case['cap'] != 99 else 1.E+12
        eig = bool(rng.integers(2))
        o = case['outcomes'][0]
        what = 'truncate(e=%.4g, r=%s, use_stab=True, is_eigh=%s) with every core times 2^%d' % (e, case['cap'], eig, sh[0])
        ctx.case(key=('rounding-stab', case['ent'], T, case['cap'], eig, sh[0]), nontrivial=o['dropped'] > 0)
        try:
            Z = teneva.truncate(Y, e, cap, use_stab=True, is_eigh=eig)
        except Exception as ex:
            ctx.violation('truncate:stab-raises', '%s raised %s: %s' % (what, type(ex).__name__, ex), case=case)
            continue
        if not ctx.check(F.is_wellformed(Z, n), 'truncate:stab', '%s: cores not finite / malformed' % what, case=case):
            continue
        rz = [int(G.shape[2]) for G in Z[:-1]]
        if not ctx.check(rz == o['ranks'], 'truncate:stab-ranks', '%s: ranks %s, specification %s' % (what, rz, o['ranks']), case=case):
            continue
        Zb, SZ = [], 0
        for G in Z:
            mx = float(np.abs(G).max())
            e_ = int(np.floor(np.log2(mx))) if mx > 0 else 0
            Zb.append(G / 2.0 ** e_)
            SZ += e_

        def gram(A, B):
            w = np.ones((1, 1))
            for Ga, Gb in zip(A, B):
                w = np.einsum('ab,aic,bid->cd', w, Ga, Gb)
            return float(w[0, 0])
        dd = SZ - S
        okd = abs(dd) < 900
        if okd:
            f = 2.0 ** dd
            dist2 = f * f * gram(Zb, Zb) - 2 * f * gram(Zb, base) + gram(base, base)
            okd = abs(dist2 - o['dropped']) <= 1e-7 * N
        ctx.check(bool(okd), 'truncate:stab', '%s: the discarded part is not the specification\'s (dropped energy %s of %s)' % (what, o['dropped'], case['N']), case=case)


def run(ctx):
    ctx.rule = ('cases = block profiles emitted by TLC (d up to 6000, exponents to +-60000) x routine; distinct = (profile, routine); '
                'non-trivial = total exponent outside the double range or d >= 500')
    ctx.assumptions = ['exact comparison through Fractions: Fraction(mantissa) * 2^exponent against the exact value (relative 1e-12)',
                       'rank >= 2 / orthogonalisation / rounding: exact dyadic mirror, cross-checked against TLC on every emitted profile']
    quick = ctx.tier == 'quick'
    res = tlc.run('Stab', cfg='Stab.cfg' if quick else 'Stab_t.cfg', workers=16, timeout=3000)
    ctx.add_tlc(res, 'Stab: normal forms of the exact scalar product for every block profile; shift lemma')
    rng = np.random.default_rng(ctx.seed)
    replay_rounding_stab(ctx, np.random.default_rng(ctx.seed + 11), quick)
    rows = [r_ for r_ in res.json if r_['d'] >= 2]
    if len(rows) > (120 if quick else 1500):
        rows = [rows[j] for j in rng.permutation(len(rows))[:(120 if quick else 1500)]]
    mirror_bad = 0
    for row in rows:
        blocks = row['blocks']
        d = row['d']
        mant = Fraction(row['mnum'], row['mden'])
        exp = row['exp']
        mv, me = normal_form(*exact_dot(blocks))
        if (mv, me) != (mant, exp):
            mirror_bad += 1
            continue
        Y1, Y2 = build(blocks, 'a'), build(blocks, 'b')
        case = {'blocks': blocks}
        huge = abs(exp) > 1000 or d >= 500
        ctx.case(key=('dot', blocks), nontrivial=huge, sample={'blocks': blocks, 'd': d, 'exponent': exp, 'mantissa': [row['mnum'], row['mden']]} if huge and d < 10000 else None)
        v, p = teneva.mul_scalar(Y1, Y2, use_stab=True)
        ok = isinstance(p, (int, np.integer)) and np.isfinite(v) and 1. <= abs(v) < 2. and frac_equal(v, int(p), mant, exp)
        ctx.check(ok, 'mul_scalar:stab', 'stabilised scalar product (v, p) = (%r, %r); exact value %s * 2^%d (d = %d)' % (v, p, mant, exp, d), case=case)
        # plain arithmetic is representable only if every partial product along the chain is (not just the final value)
        run_, worst = 0., 0.
        for bl in blocks:
            t_ = abs(sum(x_ * y_ for x_, y_ in zip(bl['a'], bl['b'])))
            step_ = (np.log2(t_) if t_ > 0 else 0.) + bl['sa'] + bl['sb']
            worst = max(worst, abs(run_ + step_), abs(run_ + step_ * bl['cnt']))
            run_ += step_ * bl['cnt']
        if abs(exp) < 900 and worst < 900:
            pl = teneva.mul_scalar(Y1, Y2)
            ctx.check(abs(pl - float(mant) * 2.0 ** exp) <= 1e-12 * abs(float(mant)) * 2.0 ** exp, 'mul_scalar:plain-vs-stab', 'plain scalar product differs from the stabilised one where representable', case=case)
        # norm: half-integer exponent, mantissa moderate
        nv, ne = normal_form(*exact_dot([dict(bl, b=bl['a'], sb=bl['sa']) for bl in blocks]))
        vn, pn = teneva.norm(Y1, use_stab=True)
        okn = np.isfinite(vn) and 0.5 < vn < 2.1 and float(2 * pn).is_integer() and frac_equal(vn * vn, int(round(2 * pn)), nv, ne, Fraction(1, 10**11))
        ctx.check(okn, 'norm:stab', 'stabilised norm (v, p) = (%r, %r): v^2 * 4^p is not the exact squared norm %s * 2^%d' % (vn, pn, nv, ne), case=case)
        # scaling one core by 2^t shifts the exponent and nothing else (same objects / layout)
        t = int(rng.choice([-7, 1, 40, 300]))
        j = int(rng.integers(d))
        Y1s = [G if k != j else G * 2.0 ** t for k, G in enumerate(Y1)]
        v2, p2 = teneva.mul_scalar(Y1s, Y2, use_stab=True)
        ctx.check(v2 == v and p2 == p + t, 'mul_scalar:shift', 'scaling core %d by 2^%d changed (v, p) from (%r, %r) to (%r, %r)' % (j, t, v, p, v2, p2), case=case)
        vn2, pn2 = teneva.norm(Y1s, use_stab=True)
        ctx.check(vn2 == vn and pn2 == pn + t, 'norm:shift', 'scaling core %d by 2^%d changed the norm pair from (%r, %r) to (%r, %r)' % (j, t, vn, pn, vn2, pn2), case=case)
        # relative accuracy of two such tensors (true distance or the documented saturation values)
        for tt in (1, -1, 600, -600):
            # the factor 2^tt is spread over the cores so that every core stays of moderate size
            per = [tt // d + (1 if k < tt % d else 0) for k in range(d)] if abs(tt) > 1 else [tt if k == j else 0 for k in range(d)]
            if max(abs(x) for x in per) > 100:
                continue
            Ys = [G * 2.0 ** s_ for G, s_ in zip(Y1, per)]
            a = teneva.accuracy(Ys, Y1)
            if tt == 600:
                okk = a == 1.E+299 or (np.isfinite(a) and a > 1e150)
            else:
                okk = abs(a - abs(2.0 ** tt - 1)) <= 1e-8
            ctx.check(bool(okk), 'accuracy:stab', 'accuracy(2^%d-scaled, Y) = %r for d = %d' % (tt, a, d), case=case)
        a_self = teneva.accuracy([G.copy() for G in Y1], Y1)
        ctx.check(0 <= a_self <= 1e-7, 'accuracy:self', 'accuracy of a tensor and its copy = %r (d = %d, exponent %d)' % (a_self, d, exp), case=case)
        # stabilised orthogonalisation of the chain
        if d <= 3200 and rng.random() < (0.15 if quick else 0.5):
            k = int(rng.integers(d))
            try:
                Z, pz = teneva.orthogonalize(Y1, k, use_stab=True)
            except Exception as ex:
                ctx.violation('orthogonalize:stab-raises', 'orthogonalize(use_stab=True) raised %s: %s (d = %d)' % (type(ex).__name__, ex, d), case=case)
                continue
            okz = F.is_wellformed(Z, [G.shape[1] for G in Y1]) and all(np.abs(G).max() < 2. + 1e-12 for G in Z) and isinstance(pz, (int, np.integer))
            if okz:
                idx = [int(np.argmax(np.abs(G[0, :, 0]))) for G in Y1]
                m1, e1 = normal_form(*entry_exp(Z, idx))
                m0, e0 = normal_form(*entry_exp(Y1, idx))
                okz = m1 != 0 and (e1 + int(pz) == e0 and abs(m1 - m0) <= Fraction(1, 10**9) * abs(m0)
                                   or abs(m1 * Fraction(2) ** (e1 + int(pz) - e0) - m0) <= Fraction(1, 10**9) * abs(m0) if abs(e1 + int(pz) - e0) <= 1 else False)
                nk = np.linalg.norm(Z[k])
                okz = okz and frac_equal(nk * nk, 2 * int(pz), nv, ne, Fraction(1, 10**9))
            ctx.check(bool(okz), 'orthogonalize:stab', 'stabilised orthogonalisation (pivot %d, d = %d): 2^p Z is not the input / mantissa not moderate / pivot norm wrong' % (k, d), case=case)
    if mirror_bad:
        raise tlc.TlcError('exact mirror disagrees with TLC on %d profiles' % mirror_bad)
    check_long_generic(ctx, np.random.default_rng(ctx.seed + 99), quick)
    # ---- rank >= 2 (mirror): sums of two chains, moderate d, huge per-core shifts; stabilised rounding
    # chains of thousands of modes with small per-core scales: the total exponent takes every residue modulo d over the
    # instances (some cores doubled), so a routine that hands the exponent back to the cores meets remainders above 1023
    long_cfgs = []
    for d_ in ((1100, 3000) if quick else (1100, 1500, 2100, 3000, 4000)):
        for j_ in range(4):
            sg = 1 if (j_ + d_ // 100) % 2 else -1
            shl = [6 * sg] * d_
            for k_ in range((j_ * d_) // 3 if j_ < 3 else d_ - 1):
                shl[d_ - 1 - k_] += 1
            long_cfgs.append((d_, shl))
    nshort = 12 if quick else 120
    for t in range(nshort + len(long_cfgs)):
        d = int(rng.integers(30, 61))
        sh = [int(x) for x in rng.choice([40, 45, 38], size=d)] if t % 2 else [int(x) for x in rng.choice([-40, -45, -38], size=d)]
        if t >= nshort:
            d, sh = long_cfgs[t - nshort]
        n = [2] * d
        base = teneva.rand_stab(n, int(rng.integers(2, 4)), noise=0.3, seed=int(rng.integers(1 << 30)))
        # per-core scales stay moderate (their squares are far above core_stab's threshold); the total is far outside the double range
        S = sum(sh)
        Y = [G * 2.0 ** s_ for G, s_ in zip(base, sh)]
        # exact squared norm of the base tensor through the Gram chain (floats, representable)
        v_ = np.ones((1, 1))
        nb2e = 0                 # exponent split off while walking (thousands of modes leave the double range)
        for G in base:
            v_ = np.einsum('ab,aic,bid->cd', v_, G, G)
            e2_ = int(np.floor(np.log2(np.abs(v_).max())))
            v_ = v_ / 2.0 ** e2_
            nb2e += e2_
        nb2 = Fraction(float(v_[0, 0]))
        ctx.case(key=('rank', t, ctx.seed), nontrivial=True)
        vn, pn = teneva.norm(Y, use_stab=True)
        okn = np.isfinite(vn) and float(2 * pn).is_integer() and frac_equal(vn * vn, int(round(2 * pn)) - 2 * S, nb2, nb2e, Fraction(1, 10**9))
        ctx.check(okn, 'norm:stab-rank', 'stabilised norm of a rank-%d tensor with total exponent %d is wrong: (%r, %r)' % (base[1].shape[0], S, vn, pn))
        for eig in (True, False):
            try:
                Z = teneva.truncate(Y, 1e-8, use_stab=True, is_eigh=eig)
            except Exception as ex:
                ctx.violation('truncate:stab-raises', 'truncate(use_stab=True) raised %s: %s' % (type(ex).__name__, ex))
                continue
            okt = F.is_wellformed(Z, n)
            diag_ = 'malformed / not finite'
            if okt:
                Zb, SZ = [], 0
                for G in Z:
                    mx = float(np.abs(G).max())
                    e_ = int(np.floor(np.log2(mx))) if mx > 0 else 0
                    Zb.append(G / 2.0 ** e_)
                    SZ += e_
                dd = SZ - S
                # relative distance through Gram chains of the (moderate) base tensors
                def gram3(A, B):
                    # <A,A>, <A,B>, <B,B>, each as (mantissa, exponent): a power of two is split off at every mode
                    w = [np.ones((1, 1)), np.ones((1, 1)), np.ones((1, 1))]
                    ex = [0, 0, 0]
                    for Ga, Gb in zip(A, B):
                        w = [np.einsum('ab,aic,bid->cd', w[0], Ga, Ga), np.einsum('ab,aic,bid->cd', w[1], Ga, Gb), np.einsum('ab,aic,bid->cd', w[2], Gb, Gb)]
                        for q_ in range(3):
                            mx_ = float(np.abs(w[q_]).max())
                            if not np.isfinite(mx_) or mx_ == 0.:
                                return None
                            e2_ = int(np.floor(np.log2(mx_)))
                            w[q_] = w[q_] / 2.0 ** e2_
                            ex[q_] += e2_
                    return [(float(w[q_][0, 0]), ex[q_]) for q_ in range(3)]
                g3 = gram3(Zb, base)
                if g3 is not None and g3[2][0] > 0 and abs(g3[0][1] - g3[2][1] + 2 * dd) < 900 and abs(g3[1][1] - g3[2][1] + dd) < 900:
                    (mzz, ezz), (mzb, ezb), (mbb, ebb) = g3
                    rzz = mzz / mbb * 2.0 ** (ezz - ebb + 2 * dd)
                    rzb = mzb / mbb * 2.0 ** (ezb - ebb + dd)
                    dist2 = rzz - 2 * rzb + 1.
                    okt = dist2 <= 1e-10
                    diag_ = 'exponent difference %d, squared relative distance %.3g' % (dd, dist2)
                else:
                    okt = False
                    diag_ = 'exponent difference %d' % dd
            ctx.check(bool(okt), 'truncate:stab', 'stabilised rounding (is_eigh=%s) of a tensor with d=%d and total exponent %d: cores not finite or tensor changed (%s)' % (eig, d, S, diag_))
        if t >= nshort:
            continue             # thousands of modes: not representable without stabilisation, nothing to compare with
        # representable case: plain and stabilised coincide
        Ym = [G * 2.0 ** int(rng.integers(-3, 4)) for G in base]
        a, b = teneva.norm(Ym), teneva.norm(Ym, use_stab=True)
        ctx.check(abs(a - b[0] * 2.0 ** b[1]) <= 1e-12 * a, 'norm:plain-vs-stab', 'plain and stabilised norm differ where representable')
        Z1, Z2 = teneva.truncate(Ym, 1e-6), teneva.truncate(Ym, 1e-6, use_stab=True)
        ctx.check(teneva.accuracy(Z1, Z2) <= 1e-6, 'truncate:plain-vs-stab', 'plain and stabilised rounding differ where representable')
        # tiny perturbation in another direction: documented saturation 0 of the relative accuracy
        a0 = teneva.accuracy(Ym, Ym)
        ctx.check(0 <= a0 <= 1e-7, 'accuracy:self', 'accuracy(Y, Y) = %r' % a0)


def check_long_generic(ctx, rng, quick):
    """Thousands of dimensions with cores that are NOT powers of two: every per-core Gram factor has a generic mantissa, so
    the running product leaves the double range after ~1000 factors unless it is renormalised after every core.
    Rank 1 with the same core in every mode (closed form), and generic rank 3 (reference: the same contraction with its own
    per-step rescaling, logarithms summed)."""
    def lg(m, p):
        return float(np.log2(abs(m))) + p
    for d, s in [(1300, 0), (2000, 0), (3000, 5), (3000, -6)] if quick else [(1300, 0), (2000, 0), (3000, 5), (3000, -6), (4000, -5), (6000, 1), (2500, 30)]:
        core = np.array([1., 2., 3.]) if d % 2 == 0 else np.array([3., -1., 0.5, 2.])
        g2 = float(core @ core)
        Y = [(core * 2.0 ** s).reshape(1, -1, 1).copy() for _ in range(d)]
        true = d * (np.log2(g2) + 2 * s)
        ctx.case(key=('long-rank1', d, s), nontrivial=True)
        try:
            v, p = teneva.mul_scalar(Y, Y, use_stab=True)
            z, q = teneva.norm(Y, use_stab=True)
            Y2 = [G.copy() for G in Y]
            Y2[d // 2] = Y2[d // 2] * 1.25
            acc = teneva.accuracy(Y2, Y)
        except Exception as ex:
            ctx.violation('mul_scalar:stab-raises', 'stabilised scalar product / norm / accuracy of a rank-1 tensor with %d modes (core %s * 2^%d) raised %s: %s' % (d, core.tolist(), s, type(ex).__name__, ex))
            continue
        ok = np.isfinite(v) and float(p).is_integer() and 0.5 <= abs(v) < 2.000001 and abs(lg(v, p) - true) <= 1e-6
        ctx.check(bool(ok), 'mul_scalar:stab', 'rank-1 tensor with %d modes, core %s * 2^%d: <Y, Y> = (%r, %r), exact log2 = %.6f' % (d, core.tolist(), s, v, p, true))
        ok = np.isfinite(z) and float(2 * q).is_integer() and 0.5 <= z < 2.000001 and abs(lg(z, q) - true / 2) <= 1e-6
        ctx.check(bool(ok), 'norm:stab', 'rank-1 tensor with %d modes, core %s * 2^%d: norm = (%r, %r), exact log2 = %.6f' % (d, core.tolist(), s, z, q, true / 2))
        ctx.check(abs(acc - 0.25) <= 1e-6, 'accuracy:stab', 'accuracy(Y with one core times 1.25, Y) = %r for d = %d (exact 0.25)' % (acc, d))
    for d, s in [(1500, 8), (3000, -9)] if quick else [(1500, 8), (3000, -9), (2200, 0), (5000, 3)]:
        sd = int(rng.integers(1 << 30))
        Y1 = [G * 2.0 ** s for G in teneva.rand([2] * d, 3, seed=sd)]
        Y2 = [G * 2.0 ** s for G in teneva.rand([2] * d, 3, seed=sd + 1)]
        w, L = None, 0.
        for G1, G2 in zip(Y1, Y2):
            T = np.einsum('imj,kml->ikjl', G1, G2).reshape(G1.shape[0] * G2.shape[0], -1)
            w = T if w is None else w @ T
            c = float(np.max(np.abs(w)))
            w = w / c
            L += np.log2(c)
        sign = np.sign(w.item())
        L += np.log2(abs(w.item()))
        ctx.case(key=('long-rank3', d, s, sd), nontrivial=True)
        try:
            v, p = teneva.mul_scalar(Y1, Y2, use_stab=True)
        except Exception as ex:
            ctx.violation('mul_scalar:stab-raises', 'stabilised scalar product of two rank-3 tensors with %d modes raised %s: %s' % (d, type(ex).__name__, ex))
            continue
        ok = np.isfinite(v) and 0.5 <= abs(v) < 2.000001 and np.sign(v) == sign and abs(lg(v, p) - L) <= 1e-5
        ctx.check(bool(ok), 'mul_scalar:stab', 'two rank-3 tensors with %d modes (cores * 2^%d): <Y1, Y2> = (%r, %r), reference sign %d, log2 = %.6f' % (d, s, v, p, sign, L))
