"""C09 - public functions never modify their arguments or alias their results.

Heap.tla is the abstract heap (buffers with versions, registers owning
buffers, call classes pure / pass / inplace, later writes by the caller); TLC
checks NoInterference on every history up to the bound and emits all
histories with the set of registers whose observable changes at every step.
Every history is executed with real calls for the functions of the registry
(every exported function, several argument combinations and memory layouts):
after each step every register is hashed and the change pattern compared.
"""
import numpy as np

import teneva

from . import registry as RG
from . import tlc


def is_tt(o):
    return isinstance(o, list) and len(o) > 0 and all(isinstance(G, np.ndarray) and G.ndim == 3 for G in o)


def writable_buffers(o):
    return [a for a in RG.arrays(o) if a.size > 0 and a.flags.writeable and a.dtype.kind in 'fiu']


def poke(a):
    idx = (0,) * a.ndim
    a[idx] = a[idx] + 1


def run_history(ctx, name, lay, hist, cls):
    f, args, kw = RG.CALLS[name]()
    if lay != 'asbuilt':
        args = RG.relayout(args, lay)
        kw = {k: (v if k in RG.FILL_KEYS else RG.relayout(v, lay)) for k, v in kw.items()}
    argview = (args, {k: v for k, v in kw.items() if k not in RG.FILL_KEYS})
    regs = {'A': argview, 'R1': None, 'R2': None}
    cur_args = {'A': (args, kw)}
    executed = 0
    poked_args = False
    for step in hist:
        before = {r: RG.snap(v) for r, v in regs.items()}
        if step['op'] == 'call':
            src, dst = step['src'], step['dst']
            if src == 'A':
                a_, k_ = args, kw
            else:
                prev = regs[src]
                if not (is_tt(prev) and len(args) > 0 and is_tt(args[0]) and len(prev) == len(args[0])
                        and [G.shape[1] for G in prev] == [G.shape[1] for G in args[0]]):
                    break           # the result cannot be fed back into this function
                a_, k_ = (prev,) + tuple(args[1:]), kw
            try:
                res = RG.quiet(f, *a_, **k_)
            except ValueError as ex:
                if 'read-only' in str(ex):
                    ctx.violation('mutation:' + RG.base_name(name), '%s [%s layout] tries to write into a read-only argument: %s' % (name, lay, ex),
                                  case={'call': name, 'layout': lay, 'history': hist})
                    return executed
                if src != 'A' or poked_args:
                    break
                raise
            except Exception:
                if src != 'A' or poked_args:
                    break           # modified arguments / a fed-back result need not be valid input
                raise
            regs[dst] = res
            executed += 1
            after = {r: RG.snap(v) for r, v in regs.items()}
            changed = sorted(r for r in regs if r != dst and before[r] != after[r])
            if changed != sorted(step['changed']):
                what = 'arguments' if 'A' in changed else 'an earlier result'
                ctx.violation('mutation:' + RG.base_name(name), '%s [%s layout]: the call changed %s (registers %s; specification: %s)'
                              % (name, lay, what, changed, step['changed']), case={'call': name, 'layout': lay, 'history': hist})
                return executed
            if cls == 'pure':
                for r, v in regs.items():
                    if r == dst or v is None:
                        continue
                    for x in RG.arrays(res):
                        for y in RG.arrays(v):
                            if x.size and y.size and np.shares_memory(x, y):
                                ctx.violation('alias:' + RG.base_name(name), '%s [%s layout]: a returned array shares memory with %s'
                                              % (name, lay, 'an argument' if r == 'A' else 'another result'),
                                              case={'call': name, 'layout': lay, 'history': hist})
                                return executed
                if res is not None and is_tt(res) and any(res is v for r, v in regs.items() if r != dst):
                    ctx.violation('alias:' + RG.base_name(name), '%s: the same list object is returned twice' % name, case={'call': name})
                    return executed
        else:
            reg = step['reg']
            bufs = writable_buffers(regs[reg])
            if not bufs:
                continue
            poke(bufs[step['which'] % len(bufs)])
            poked_args = poked_args or reg == 'A'
            executed += 1
            after = {r: RG.snap(v) for r, v in regs.items()}
            changed = sorted(r for r in regs if before[r] != after[r])
            if cls == 'pure' and changed != [reg]:
                ctx.violation('alias:' + RG.base_name(name), '%s [%s layout]: a later write to %s also changed %s'
                              % (name, lay, reg, [r for r in changed if r != reg]), case={'call': name, 'layout': lay, 'history': hist})
                return executed
    return executed


def check_inplace(ctx):
    for d, n, r in ((4, [3, 2, 4, 3], 2), (2, [3, 4], 3), (3, [2, 1, 2], 2)):
        for fn, rng_i, nb in ((teneva.orthogonalize_left, range(0, d - 1), +1), (teneva.orthogonalize_right, range(1, d), -1)):
            for i in rng_i:
                for lay in ('asbuilt', 'C'):
                    Y = teneva.rand(n, r, seed=3)
                    if lay == 'C':
                        Y = [np.ascontiguousarray(G) for G in Y]
                    keep = [G.copy() for G in Y]
                    ids = [id(G) for G in Y]
                    Z = fn(Y, i, inplace=True)
                    touched = {i, i + nb}
                    ok = Z is Y and all(np.array_equal(Y[k], keep[k]) and id(Y[k]) == ids[k] for k in range(d) if k not in touched)
                    ctx.case(key=('inplace', fn.__name__, d, i, lay), nontrivial=True)
                    ctx.check(ok, 'inplace:' + fn.__name__, '%s(inplace=True, i=%d, d=%d) changed cores outside {i, i%+d} or returned another list'
                              % (fn.__name__, i, d, nb))
                    Y2 = [G.copy() for G in keep]
                    k2 = [G.copy() for G in Y2]
                    Z2 = fn(Y2, i, inplace=False)
                    ok2 = Z2 is not Y2 and all(np.array_equal(a, b) for a, b in zip(Y2, k2)) and \
                        not any(np.shares_memory(a, b) for a in Z2 for b in Y2)
                    ctx.check(ok2, 'mutation:' + fn.__name__, '%s(inplace=False) modified or aliased its argument' % fn.__name__)


def run(ctx):
    ctx.rule = ('cases = (registry call, memory layout, history emitted by TLC) executed step by step; distinct = that triple; '
                'non-trivial = the history contains a later write or a second call')
    ctx.assumptions = ['registry of call variants is hand-written; completeness w.r.t. teneva.__init__ is checked mechanically',
                       'excluded: ' + ', '.join('%s (%s)' % kv for kv in RG.EXCLUDED.items()),
                       'undocumented service arguments (to_orth, cores_are_prepared, _to_item, update_sol) are outside the quantifier']
    miss = RG.missing_exports()
    if miss:
        raise tlc.TlcError('exported functions without a registry entry: %s' % miss)
    res = tlc.run('Heap', cfg='Heap_all.cfg', workers=8, timeout=1800)
    ctx.add_tlc(res, 'Heap: all histories up to length 4, classes pure/pass/inplace, NoInterference')
    res = tlc.run('Heap', cfg='Heap_pure.cfg', workers=4, timeout=1800)
    ctx.add_tlc(res, 'Heap: histories of pure calls and later writes (emitted for replay)')
    hists = []
    seen = set()
    for h in res.json:
        key = repr(h)
        if key not in seen and h and h[0]['op'] == 'call':
            seen.add(key)
            hists.append(h)
    if not hists:
        raise tlc.TlcError('Heap emitted no history')
    rng = np.random.default_rng(ctx.seed)
    quick = ctx.tier == 'quick'
    names = sorted(RG.CALLS)
    if ctx.replay_filter:
        names = [ctx.replay_filter['case']['call']]
    slow = {'cross', 'cross_vld', 'cross_act', 'als', 'als_w', 'als_vld', 'als_adapt', 'als_func', 'als_func_vld', 'als_func_nolamb',
            'anova2', 'optima_qtt', 'sample_square', 'svd_incomplete', 'ANOVA_call'}
    for name in names:
        cls = 'pass' if name in RG.PASS_THROUGH else 'pure'
        lays = RG.LAYOUTS if not quick else ['asbuilt', 'ro', RG.LAYOUTS[1 + (hash(name) % 4)]]
        nh = (6 if name in slow else 14) if quick else (25 if name in slow else len(hists))
        pick = [hists[j] for j in rng.permutation(len(hists))[:nh]]
        # always include the canonical templates
        for lay in lays:
            for h in pick:
                try:
                    ex = run_history(ctx, name, lay, h, cls)
                except Exception as exn:
                    if lay in ('asbuilt',):
                        raise
                    # a layout the function does not accept at all (e.g. read-only input to a LAPACK driver): not a verdict
                    ctx.notes.setdefault('layout_rejections', []).append('%s/%s: %s' % (name, lay, type(exn).__name__))
                    break
                ctx.case(key=(name, lay, repr(h)), nontrivial=any(s['op'] == 'write' for s in h) or sum(s['op'] == 'call' for s in h) > 1,
                         sample={'call': name, 'layout': lay, 'history': h} if name == 'add' and lay == 'asbuilt' else None)
    check_inplace(ctx)
    if 'layout_rejections' in ctx.notes:
        ctx.notes['layout_rejections'] = sorted(set(ctx.notes['layout_rejections']))
