"""C08 - maxvol returns a dominant submatrix with an exact coefficient matrix.

Maxvol.tla is the determinant model (Cramer): TLC explores every integer
matrix of the configured sizes, every admissible start, every tie; ValidI,
Dominant, IdentityRows, RectCount, RectSmall are invariants and VolumeGrows an
action property.  Executions recorded through the env-guarded hooks are
validated step by step by TLC (integer matrices); the same verdict function
written with Fractions (mirror, cross-checked against TLC on every integer
trace) validates float matrices up to condition 1e8.
"""
from fractions import Fraction
import itertools
import math

import numpy as np

import teneva
try:
    from teneva import _verif
except ImportError:          # hooks module removed by a refactoring: black-box mode (see record)
    _verif = None

from . import common, tlc, traces

Q = 10000


def frac_det(M):
    n = len(M)
    if n == 1:
        return M[0][0]
    if n == 2:
        return M[0][0] * M[1][1] - M[0][1] * M[1][0]
    s = 0
    for j in range(n):
        minor = [row[:j] + row[j + 1:] for row in M[1:]]
        s += (-1) ** j * M[0][j] * frac_det(minor)
    return s


def exact_B(A, I):
    """B = A A[I]^+ in exact rationals (square: inverse; rectangular: pseudo-inverse)."""
    Af = [[Fraction(x) for x in row] for row in A]
    S = [Af[i] for i in I]
    r = len(Af[0])
    G = [[sum(S[t][a] * S[t][b] for t in range(len(S))) for b in range(r)] for a in range(r)]
    # solve G X = S^T  -> X = G^-1 S^T (r x k); B = A X
    aug = [G[a][:] + [S[t][a] for t in range(len(S))] for a in range(r)]
    for c in range(r):
        p = next(k for k in range(c, r) if aug[k][c] != 0)
        aug[c], aug[p] = aug[p], aug[c]
        pv = aug[c][c]
        aug[c] = [x / pv for x in aug[c]]
        for k in range(r):
            if k != c and aug[k][c] != 0:
                f = aug[k][c]
                aug[k] = [x - f * y for x, y in zip(aug[k], aug[c])]
    X = [row[r:] for row in aug]
    return [[sum(Af[i][a] * X[a][t] for a in range(r)) for t in range(len(S))] for i in range(len(Af))]


def record(A, e, k, rect=None, dtype=float):
    """Run maxvol / maxvol_rect with hooks on; returns (trace dict, events raw, result)."""
    if _verif is not None and not _verif.ON:
        raise common.Machinery('teneva._verif hooks are off (TENEVA_VERIF=1 must be set before import)')
    if _verif is not None:
        _verif.drain()
    A = np.array(A, dtype=dtype)
    if rect is None:
        I, B = teneva.maxvol(A, float(e), k)
    else:
        tau, drmin, drmax = rect
        I, B = teneva.maxvol_rect(A, float(tau), drmin, drmax, float(e), k)
    raw = _verif.drain() if _verif is not None else []
    names = [x['ev'] for x in raw]
    if 'mv_init' not in names or ('mv_ret' not in names):
        # a refactoring dropped the (add-only) hooks: degrade to the black-box contract of the result
        return None, np.array(I), np.array(B)
    return raw, np.array(I), np.array(B)


def blackbox_verdict(A, e, k, rect, I, B):
    """Contract of the result alone (used when the hooks are gone): distinct valid rows, A = B A[I], identity rows,
    row count, and - when the iteration budget cannot have been exhausted - dominance max|B| <= e (square case)."""
    A = np.array(A, dtype=float)
    n, r = A.shape
    Il = [int(v) for v in I]
    if len(set(Il)) != len(Il) or any(not (0 <= v < n) for v in Il):
        return 'returned rows are not distinct valid row numbers: %s' % Il
    if B.shape != (n, len(Il)):
        return 'coefficient matrix has shape %s' % (B.shape,)
    res = np.abs(B @ A[Il] - A).max()
    if res > 1e-6 * max(1., np.abs(B).max()) * max(1e-300, np.abs(A).max()):
        return 'A != B A[I] (residual %.2e)' % res
    if rect is None:
        if len(Il) != r:
            return 'maxvol returned %d rows for %d columns' % (len(Il), r)
        if k >= 100 and np.abs(B).max() > e * (1 + 1e-9):
            return 'result is not dominant: max|B| = %.6g > e = %s' % (np.abs(B).max(), e)
    else:
        if not (r + rect[1] <= len(Il) <= min(n, r + rect[2])):
            return 'number of rows %d outside the allowed range' % len(Il)
        if not np.allclose(B[Il], np.eye(len(Il)), atol=1e-9):
            return 'B[I] is not the identity'
    return None


def to_trace(A, e, k, rect, raw, I, B):
    n, r = len(A), len(A[0])
    ef = Fraction(e).limit_denominator(1000)
    ev = []
    if rect is None:
        Bx = exact_B(A, [int(x) for x in I])
        B_ok = B.shape == (n, len(I)) and all(abs(float(Bx[i][t]) - B[i, t]) <= 1e-8 * (1 + abs(float(Bx[i][t]))) for i in range(n) for t in range(len(I)))
    else:
        # k > r rows: B is not unique; the contract is A = B A[I] (and identity rows, checked below)
        An = np.array(A, dtype=float)
        B_ok = B.shape == (n, len(I)) and bool(np.abs(B @ An[I] - An).max() <= 1e-9 * (1 + np.abs(B).max()) * (1 + np.abs(An).max()))
    for x in raw:
        if x['ev'] == 'mv_init':
            ev.append(dict(ev='mv_init', I=[int(v) for v in x['I']]))
        elif x['ev'] == 'mv_swap':
            ev.append(dict(ev='mv_swap', i=x['i'], j=x['j'], blo=int(math.floor(x['b'] * Q * (1 - 1e-9))) - 1, bhi=int(math.ceil(x['b'] * Q * (1 + 1e-9))) + 1))
        elif x['ev'] == 'mv_conv':
            ev.append(dict(ev='mv_conv', blo=int(math.floor(x['b'] * Q * (1 - 1e-9))) - 1, bhi=int(math.ceil(x['b'] * Q * (1 + 1e-9))) + 1))
        elif x['ev'] == 'mv_ret':
            Bsq = np.array(x['B'])
            Isq = [int(v) for v in x['I']]
            Bq = exact_B(A, Isq)
            ok = Bsq.shape == (n, r) and all(abs(float(Bq[i][t]) - Bsq[i, t]) <= 1e-8 * (1 + abs(float(Bq[i][t]))) for i in range(n) for t in range(r))
            dom = bool(np.abs(Bsq).max() <= float(e) * (1 + 1e-12))
            ev.append(dict(ev='mv_ret', I=Isq, B_ok=bool(ok), dom_ok=dom))
        elif x['ev'] == 'mr_init':
            ev.append(dict(ev='mr_init', I0=[int(v) for v in x['I0']]))
        elif x['ev'] == 'mr_add':
            ev.append(dict(ev='mr_add', i=x['i'], flo=int(math.floor(x['f'] * Q * (1 - 1e-9))) - 1, fhi=int(math.ceil(x['f'] * Q * (1 + 1e-9))) + 1))
        elif x['ev'] == 'mr_stop':
            ev.append(dict(ev='mr_stop'))
        elif x['ev'] == 'mr_ret':
            small = True
            if rect is not None and len(I) < min(n, r + rect[2]):
                small = bool(np.linalg.norm(B, axis=1).max() <= float(rect[0]) * (1 + 1e-9)) or len(I) == n
            ident = bool(np.array_equal(B[I], np.eye(len(I))))
            ev.append(dict(ev='mr_ret', I=[int(v) for v in I], B_ok=bool(B_ok and ident), small_ok=small))
    if rect is None:
        par = dict(e=[ef.numerator, ef.denominator], k=int(k), e2=[1, 1], rmin=-1, rmax=-1)
    else:
        tf = Fraction(rect[0]).limit_denominator(1000) ** 2
        par = dict(e=[ef.numerator, ef.denominator], k=int(k), e2=[tf.numerator, tf.denominator],
                   rmin=r + rect[1], rmax=min(n, r + rect[2]))
    return dict(A=[[int(v) for v in row] for row in A], par=par, rect=rect is not None, ev=ev)


def mirror_verdict(A, e, k, rect, raw, I, B):
    """The same checks as Trace_Maxvol, in exact rationals, valid for float matrices."""
    Af = [[Fraction(float(x)) for x in row] for row in A]
    n, r = len(Af), len(Af[0])
    ef = Fraction(float(e))
    cur = None
    nsw = 0
    state = 'init'

    def det_rows(rows):
        return frac_det([Af[i] for i in rows])
    for x in raw:
        if x['ev'] == 'mv_init':
            cur = [int(v) for v in x['I']]
            if len(set(cur)) != r or det_rows(cur) == 0:
                return 'start rows %s are not distinct / singular' % cur
            state = 'loop'
        elif x['ev'] in ('mv_swap', 'mv_conv'):
            d0 = abs(det_rows(cur))
            best = max(abs(det_rows(cur[:j] + [i] + cur[j + 1:])) for i in range(n) for j in range(r))
            if x['ev'] == 'mv_swap':
                num = abs(det_rows(cur[:x['j']] + [x['i']] + cur[x['j'] + 1:]))
                # argmax up to the rounding of the incrementally updated B
                if num < best * (1 - Fraction(1, 10**7)):
                    return 'swap (%d,%d) is not a maximal element of |B|' % (x['i'], x['j'])
                if num < ef * d0 * (1 - Fraction(1, 10**9)):
                    return 'swap although |B[i,j]| <= e'
                if abs(float(num / d0) - x['b']) > 1e-6 * max(1., x['b']):
                    return 'logged |B[i,j]| = %r, exact %r' % (x['b'], float(num / d0))
                if nsw >= k:
                    return 'more swaps than the iteration limit'
                cur[x['j']] = x['i']
                nsw += 1
            else:
                if best > ef * d0 * (1 + Fraction(1, 10**7)):
                    return 'reported convergence although max|B| = %r > e' % float(best / d0)
                state = 'conv'
        elif x['ev'] == 'mv_ret':
            if [int(v) for v in x['I']] != cur:
                return 'returned rows %s, tracked %s' % (x['I'], cur)
            if len(set(cur)) != r:
                return 'rows not distinct'
    Ilist = [int(v) for v in I]
    if len(set(Ilist)) != len(Ilist) or any(not (0 <= v < n) for v in Ilist):
        return 'returned rows are not distinct valid row numbers: %s' % Ilist
    if rect is None:
        Bx = exact_B([[float(v) for v in row] for row in A], Ilist)
        sc = max(1., max(abs(float(v)) for row in Bx for v in row))
        if any(abs(float(Bx[i][t]) - B[i, t]) > 1e-6 * sc for i in range(n) for t in range(len(Ilist))):
            return 'B differs from A A[I]^-1'
    else:
        An = np.array(A, dtype=float)
        if np.abs(B @ An[Ilist] - An).max() > 1e-7 * (1 + np.abs(B).max()) * (1 + np.abs(An).max()):
            return 'A != B A[I]'
    if rect is None and state == 'conv' and np.abs(B).max() > float(e) * (1 + 1e-9):
        return 'converged but max|B| > e'
    if rect is not None:
        tau, drmin, drmax = rect
        if not (r + drmin <= len(Ilist) <= min(n, r + drmax)):
            return 'number of rows %d outside [%d, %d]' % (len(Ilist), r + drmin, min(n, r + drmax))
        if not np.array_equal(B[Ilist], np.eye(len(Ilist))):
            return 'B[I] is not the identity'
        if len(Ilist) < min(n, r + drmax) and np.linalg.norm(B, axis=1).max() > tau * (1 + 1e-9):
            return 'stopped early although a row of B has norm > e'
    return None


def gen_int_matrix(rng, n, r, lim=3):
    while True:
        A = rng.integers(-lim, lim + 1, size=(n, r))
        if rng.random() < 0.3:
            A[rng.integers(n)] = 0
        if rng.random() < 0.3:
            A[rng.integers(n)] = A[rng.integers(n)]
        if rng.random() < 0.15:
            z = rng.integers(0, n, size=max(1, n - r - 1))
            A[z] = 0
        if np.linalg.matrix_rank(A) == r:
            return A


def run(ctx):
    ctx.rule = ('cases = recorded maxvol / maxvol_rect executions (integer matrices validated by TLC, float matrices by the '
                'TLC-cross-checked mirror) + emitted locally optimal sets; distinct = (matrix, e, k, dr); non-trivial = at least '
                'one swap or one added row')
    ctx.assumptions = ['hooks in teneva/maxvol.py (TENEVA_VERIF=1) report every swap / added row',
                       'TLC part: integer matrices with |entries| <= 3, r <= 3; float matrices only through the mirror',
                       'logged |B[i,j]| / F[i] compared at 1e-4 (TLC) resp. 1e-6 (mirror)']
    quick = ctx.tier == 'quick'
    for cfg in (['MC_Maxvol_q.cfg', 'MC_Maxvol_rq.cfg'] if quick else ['MC_Maxvol_q.cfg', 'MC_Maxvol_r.cfg', 'MC_Maxvol_t.cfg', 'MC_Maxvol_t2.cfg']):
        res = tlc.run('MC_Maxvol', cfg=cfg, workers=16, timeout=3400)
        ctx.add_tlc(res, 'determinant model, exhaustive: ' + cfg)
    rng = np.random.default_rng(ctx.seed)
    # --- argument errors
    for A in (np.eye(3), np.ones((2, 3)), np.ones((1, 1))):
        raised = False
        try:
            teneva.maxvol(A)
        except ValueError:
            raised = True
        ctx.case(key=('wide', A.shape), nontrivial=True)
        ctx.check(raised, 'maxvol:argcheck', 'maxvol accepted a %dx%d (not tall) matrix' % A.shape)
    A6 = rng.normal(size=(6, 2))
    for drmin, drmax, bad in ((2, 1, True), (-1, 1, True), (0, 5, False), (0, None, False), (4, 4, False), (5, 5, True), (0, 0, False)):
        raised = False
        try:
            Ii, Bi = teneva.maxvol_rect(A6, 1.1, drmin, drmax)
        except ValueError:
            raised = True
        ctx.case(key=('dr', drmin, drmax), nontrivial=True)
        ctx.check(raised == bad, 'maxvol_rect:argcheck', 'maxvol_rect(dr_min=%s, dr_max=%s): raised=%s, expected %s' % (drmin, drmax, raised, bad))
        if not raised and drmax is not None:
            ctx.check(2 + drmin <= len(Ii) <= min(6, 2 + drmax), 'maxvol_rect:count', 'maxvol_rect(dr_min=%s, dr_max=%s) returned %d rows' % (drmin, drmax, len(Ii)))
    # --- integer traces -> TLC
    trs, metas = [], []
    ntr = 250 if quick else 2500
    sizes = [(3, 1), (3, 2), (4, 2), (5, 2), (6, 2), (4, 3), (5, 3), (7, 3), (8, 2)]
    for t in range(ntr):
        n, r = sizes[t % len(sizes)]
        A = gen_int_matrix(rng, n, r)
        e = [1.01, 1.05, 1.5, 1.1][int(rng.integers(4))]
        k = [1, 2, 100, 100][int(rng.integers(4))]
        if t % 2 == 0:
            rect = None
        else:
            drmin = int(rng.integers(0, 3))
            drmax = drmin + int(rng.integers(0, 3))
            if r + drmin > n:
                drmin = 0
            rect = ([1.1, 1.01, 1.5, 1.2][int(rng.integers(4))], drmin, drmax)
            if rect[2] == 0 and rng.random() < 0.5:
                rect = (rect[0], 0, 0)
        # integer matrices are handed over in integer and floating types alike (same matrix, same specification)
        dt = [float, np.int64, np.int32, float][t % 4]
        try:
            raw, I, B = record(A, e, k, rect, dtype=dt)
        except ValueError as ex:
            ctx.violation('maxvol:raises', 'valid call raised %s (A=%s, rect=%s)' % (ex, A.tolist(), rect), case={'A': A.tolist()})
            continue
        if not (np.asarray(B).dtype == np.float64):
            ctx.violation('maxvol:result', 'coefficient matrix has dtype %s for input dtype %s' % (np.asarray(B).dtype, np.dtype(dt)), case={'A': A.tolist()})
            continue
        if raw is None:
            ctx.notes['degraded'] = 'maxvol hooks did not fire: results judged by their black-box contract only'
            bv = blackbox_verdict(A, e, k, rect, I, B)
            ctx.case(key=(A.tolist(), e, k, rect), nontrivial=True)
            if bv is not None:
                ctx.violation('maxvol:result' if rect is None else 'maxvol_rect:result', '%s; A=%s e=%s k=%s rect=%s' % (bv, A.tolist(), e, k, rect), case={'A': A.tolist()})
            continue
        tr = to_trace(A.tolist(), e, k, rect, raw, I, B)
        mv = mirror_verdict(A.tolist(), e, k, rect, raw, I, B)
        trs.append(tr)
        metas.append((A, e, k, rect, mv, sum(1 for x in raw if x['ev'] in ('mv_swap', 'mr_add'))))
    verdicts, st, gen, runs = traces.validate('Trace_Maxvol', trs, cfg='Trace_Maxvol.cfg', diag_cfg='Trace_Maxvol_diag.cfg') if trs else ([], 0, 0, [])
    for r_ in runs:
        ctx.add_tlc(r_, 'trace validation (Trace_Maxvol), %d traces' % len(trs))
    disagree, lax = 0, 0
    for tr, v, (A, e, k, rect, mv, nsteps) in zip(trs, verdicts, metas):
        ctx.case(key=(A.tolist(), e, k, rect), nontrivial=nsteps > 0,
                 sample={'A': A.tolist(), 'e': e, 'k': k, 'rect': rect, 'events': tr['ev']})
        if v['ok']:
            ctx.trace_ok()
        else:
            ctx.violation('maxvol:trace' if rect is None else 'maxvol_rect:trace',
                          'trace rejected (%s); A=%s e=%s k=%s rect=%s' % (v['why'], A.tolist(), e, k, rect), case=tr)
        if v['ok'] and mv is not None:
            disagree += 1                  # the mirror rejects what TLC accepts: it would raise false alarms on float matrices
        elif (not v['ok']) and mv is None:
            lax += 1                       # the mirror accepts what TLC rejects (TLC's verdict stands; see the evidence note)
    ctx.notes['mirror_stricter_than_tlc'] = disagree
    ctx.notes['mirror_laxer_than_tlc'] = lax
    if disagree > max(2, len(trs) // 50):
        raise tlc.TlcError('the mirror rejects %d of %d integer traces that TLC accepts: the mirror cannot be trusted' % (disagree, len(trs)))
    # --- float matrices (conditioning up to 1e8, large aspect) -> mirror
    nfl = 150 if quick else 1500
    for t in range(nfl):
        r = int(rng.integers(1, 4))
        n = r + int(rng.integers(1, 12))
        U = rng.normal(size=(n, r))
        cond = 10.0 ** rng.uniform(0, 8)
        s = np.logspace(0, -np.log10(cond), r)
        A = U * s
        if rng.random() < 0.2:
            A[rng.integers(n)] = 0.
        if rng.random() < 0.2:
            A[rng.integers(n)] = A[rng.integers(n)]
        if np.linalg.matrix_rank(A) < r:
            continue
        e = float(rng.choice([1.01, 1.05, 1.2, 2.0]))
        k = int(rng.choice([1, 3, 100]))
        rect = None
        if t % 2:
            drmin = int(rng.integers(0, min(3, n - r) + 1))
            rect = (float(rng.choice([1.01, 1.1, 1.5])), drmin, drmin + int(rng.integers(0, 3)))
        try:
            raw, I, B = record(A, e, k, rect)
        except ValueError as ex:
            ctx.violation('maxvol:raises', 'valid call raised %s' % ex, case={'A': A.tolist(), 'rect': rect})
            continue
        if raw is None:
            bv = blackbox_verdict(A, e, k, rect, I, B)
            ctx.case(key=('float', t, ctx.seed), nontrivial=True)
            if bv is not None:
                ctx.violation('maxvol:float' if rect is None else 'maxvol_rect:float', '%s (n=%d r=%d cond=%.1e e=%s k=%s rect=%s)' % (bv, n, r, cond, e, k, rect),
                              case={'A': A.tolist(), 'e': e, 'k': k, 'rect': rect})
            continue
        # the rounding slack must scale with the conditioning for the B comparison only
        mv = mirror_verdict(A.tolist(), e, k, rect, raw, I, B) if cond < 1e5 else mirror_verdict_loose(A, e, k, rect, raw, I, B)
        nsteps = sum(1 for x in raw if x['ev'] in ('mv_swap', 'mr_add'))
        ctx.case(key=('float', t, ctx.seed), nontrivial=nsteps > 0)
        if mv is not None:
            ctx.violation('maxvol:float' if rect is None else 'maxvol_rect:float', '%s (n=%d r=%d cond=%.1e e=%s k=%s rect=%s)' % (mv, n, r, cond, e, k, rect),
                          case={'A': A.tolist(), 'e': e, 'k': k, 'rect': rect})
    # --- very tall matrices (row counts around and far above internal block sizes): contract of the result
    for t, n in enumerate([16383, 16385, 20000] if quick else [4095, 4097, 8193, 16383, 16385, 17000, 20000, 24000]):     # (the LU of maxvol builds an n x n permutation matrix: 24000 rows = 4.6 GB)
        for rect in (None, (1.1, 1, 2)):
            r = [6, 8, 12][t % 3]                        # enough columns for several swaps after the LU start
            A = rng.normal(size=(n, r))
            e, k = 1.01, 100
            raw, I, B = record(A, e, k, rect)
            bv = blackbox_verdict(A, e, k, rect, I, B)
            nsteps = sum(1 for x in (raw or []) if x['ev'] in ('mv_swap', 'mr_add'))
            ctx.case(key=('tall', n, r, rect is None), nontrivial=nsteps > 0 or raw is None)
            if bv is not None:
                ctx.violation('maxvol:tall' if rect is None else 'maxvol_rect:tall', '%s (n=%d r=%d rect=%s, %d steps)' % (bv, n, r, rect, nsteps), case={'n': n, 'r': r, 'seed': ctx.seed})
    # --- many swaps in one call (interpolation-type matrices: the LU start is far from dominant): the incrementally updated
    #     coefficient matrix must still be A A[I]^-1 after dozens of rank-one updates
    most = 0
    for t, (n_, r_, kind_) in enumerate([(1000, 40, 'cos'), (1200, 48, 'rbf'), (800, 60, 'cos')] if quick else
                                        [(1000, 40, 'cos'), (1200, 48, 'rbf'), (800, 60, 'cos'), (1500, 64, 'rbf'), (2000, 50, 'cos'), (600, 200, 'gauss')]):
        x_ = np.linspace(-1, 1, n_)
        if kind_ == 'cos':
            A = np.cos(np.outer(np.arccos(x_), np.arange(r_)))
        elif kind_ == 'rbf':
            c_ = np.linspace(-1, 1, r_)
            A = np.exp(-((x_[:, None] - c_[None, :]) * r_ / 6.) ** 2)
        else:
            A = rng.normal(size=(n_, r_))
        e, k = 1.01, 2000
        raw, I, B = record(A, e, k, None)
        bv = blackbox_verdict(A, e, k, None, I, B)
        nsw_ = sum(1 for x in (raw or []) if x['ev'] == 'mv_swap')
        most = max(most, nsw_)
        ctx.case(key=('many-swaps', n_, r_, kind_), nontrivial=nsw_ >= 32 or raw is None)
        if bv is not None:
            ctx.violation('maxvol:many-swaps', '%s (%s matrix %dx%d, %d swaps)' % (bv, kind_, n_, r_, nsw_), case={'n': n_, 'r': r_, 'kind': kind_})
    ctx.notes['largest_number_of_swaps_in_one_call'] = most
    # --- every iteration limit of the initial maxvol, on matrices whose pivoted-LU start has large coefficients (Wilkinson
    #     growth inside each diagonal block; conditioning ~1e4): with a small limit the greedy stage of maxvol_rect starts from
    #     rows of large coefficient norm; the contract of the result does not depend on the limit
    def growth_block(nb, rb, g):
        L = g.uniform(-0.9, 0.9, size=(nb, rb))
        L[:rb] = np.eye(rb) - 0.95 * np.tril(np.ones((rb, rb)), -1)
        return L @ (np.eye(rb) + 0.1 * np.triu(g.uniform(-1, 1, size=(rb, rb)), 1))
    for (mb, nb, rb, k0s) in ((1, 25, 9, (0, 1, 2, 10)), (3, 20, 10, (1, 2, 10)), (12, 14, 9, (10, 100))) if quick else \
            ((1, 25, 9, (0, 1, 2, 3, 10)), (3, 20, 10, (0, 1, 2, 5, 10)), (12, 14, 9, (1, 10, 100)), (2, 40, 14, (1, 2, 10)), (6, 12, 8, (2, 10))):
        for sd in range(2 if quick else 6):
            g = np.random.default_rng(1000 * sd + ctx.seed)
            Ag = np.zeros((mb * nb, mb * rb))
            for bb in range(mb):
                Ag[bb * nb:(bb + 1) * nb, bb * rb:(bb + 1) * rb] = growth_block(nb, rb, g)
            ng, rg = Ag.shape
            for k0 in k0s:
                for e_ in (1.05, 2.):
                    for (drmin, drmax) in ((0, None), (2, 20)):
                        ctx.case(key=('rect-growth', mb, nb, rb, sd, k0, e_, drmin, drmax), nontrivial=True)
                        keepA = Ag.copy()
                        try:
                            Ig, Bg = teneva.maxvol_rect(Ag, e_, drmin, drmax, 1.05, k0)
                        except Exception as ex:
                            ctx.violation('maxvol_rect:raises', 'maxvol_rect on a %dx%d block matrix (k0=%d, e=%g) raised %s: %s' % (ng, rg, k0, e_, type(ex).__name__, ex))
                            continue
                        hi = ng if drmax is None else min(ng, rg + drmax)
                        msg = blackbox_verdict(Ag, e_, k0, (e_, drmin, hi - rg), Ig, Bg)
                        if msg is None and len(Ig) < hi:
                            nrm = float(np.linalg.norm(Bg, axis=1).max())
                            if nrm > e_ * (1 + 1e-9):
                                msg = 'stopped with %d < %d rows although a row of B has Euclidean norm %.4f > e = %g' % (len(Ig), hi, nrm, e_)
                        if msg is None and not np.array_equal(Ag, keepA):
                            msg = 'the argument was modified'
                        ctx.check(msg is None, 'maxvol_rect:contract', 'maxvol_rect(%dx%d block matrix with LU growth, e=%g, dr_min=%s, dr_max=%s, k0=%d): %s' % (ng, rg, e_, drmin, drmax, k0, msg))
    # --- spec -> code: the converged result must be one of the locally optimal sets TLC found
    res = tlc.run('MC_Maxvol', cfg='MC_Maxvol_e.cfg', workers=8, timeout=3000)
    ctx.add_tlc(res, 'locally optimal index sets of all 3x2 matrices with entries {-1,0,1} (emitted)')
    opt = {}
    for row in res.json:
        opt.setdefault(repr(row['A']), (row['A'], set()))[1].add(frozenset(x - 1 for x in row['I']))
    for key, (A, sets) in opt.items():
        I, B = teneva.maxvol(np.array(A, dtype=float), 1.05, 100)
        ctx.case(key=('opt', key), nontrivial=len(sets) > 1)
        ctx.check(frozenset(int(x) for x in I) in sets, 'maxvol:local-optimum',
                  'maxvol(%s) returned rows %s which is not a dominant set; dominant sets: %s' % (A, I.tolist(), [sorted(s) for s in sets]), case={'A': A})


def mirror_verdict_loose(A, e, k, rect, raw, I, B):
    """Ill-conditioned inputs: control flow exactly, B by its residual A = B A[I] (scaled), identity rows."""
    n, r = A.shape
    Il = [int(v) for v in I]
    if len(set(Il)) != len(Il) or any(not (0 <= v < n) for v in Il):
        return 'returned rows are not distinct valid row numbers: %s' % Il
    res = np.abs(B @ A[Il] - A).max()
    if res > 1e-6 * max(1., np.abs(B).max()) * np.abs(A).max():
        return 'A != B A[I] (residual %.2e)' % res
    if rect is not None:
        if not (r + rect[1] <= len(Il) <= min(n, r + rect[2])):
            return 'number of rows %d outside the allowed range' % len(Il)
        if not np.array_equal(B[Il], np.eye(len(Il))):
            return 'B[I] is not the identity'
    else:
        if np.abs(B[Il] - np.eye(r)).max() > 1e-6:
            return 'B[I] is not the identity'
        if any(x['ev'] == 'mv_conv' for x in raw) and np.abs(B).max() > e * (1 + 1e-9):
            return 'converged but max|B| > e'
    return None


def selftest(ctx):
    from . import selftest as ST
    return ST.maxvol(ctx)
