"""Exactly solvable input families and the symmetries that keep the
specification's prediction invariant."""
import numpy as np


def dense(Y):
    """Independent dense export of a TT-tensor (einsum chain)."""
    Z = np.asarray(Y[0])[0]
    for G in Y[1:]:
        Z = np.einsum('...a,aib->...ib', Z, np.asarray(G))
    return Z[..., 0]


def tt_add(A, B):
    """Independent TT addition (block structure written out here)."""
    d = len(A)
    out = []
    for k in range(d):
        a, b = A[k], B[k]
        if k == 0:
            G = np.concatenate([a, b], axis=2)
        elif k == d - 1:
            G = np.concatenate([a, b], axis=0)
        else:
            G = np.zeros((a.shape[0] + b.shape[0], a.shape[1], a.shape[2] + b.shape[2]))
            G[:a.shape[0], :, :a.shape[2]] = a
            G[a.shape[0]:, :, a.shape[2]:] = b
        out.append(G)
    return out


def delta_tt(n, idx, amp):
    cores = [np.zeros((1, k, 1)) for k in n]
    for k, i in enumerate(idx):
        cores[k][0, i, 0] = 1.
    cores[0] = cores[0] * amp
    return cores


def family_member(d, npre, ent):
    """Distinct-last-index tensor: entry t sits at (pre_t, t) with amplitude sqrt(en_t)."""
    ne = len(ent)
    n = [npre] * (d - 1) + [ne]
    Y = None
    for t, e in enumerate(ent):
        idx = list(e['pre']) + [t]
        D = delta_tt(n, idx, np.sqrt(e['en']))
        Y = D if Y is None else tt_add(Y, D)
    return Y, n


def random_orth(rng, k):
    Q, R = np.linalg.qr(rng.normal(size=(k, k)))
    return Q * np.sign(np.diag(R))


def apply_symmetries(Y, n, rng, rotate=True, gauge=True, pad=False, scale_pow=0, order=None, core_shifts=None, same_rot=False):
    """Mode rotations (orthogonal), gauge matrices between cores, power-of-two
    scaling, optional rank padding (+Z -Z).  Returns (Y', rotations)."""
    d = len(Y)
    Y = [G.copy() for G in Y]
    if pad:
        Z = [rng.normal(size=(1, k, 1)) for k in n]
        Zm = [G.copy() for G in Z]
        Zm[0] = -Zm[0]
        Y = tt_add(tt_add(Y, Z), Zm)
    Qs = []
    for k in range(d):
        Q = random_orth(rng, n[k]) if rotate else np.eye(n[k])
        if same_rot and k > 0 and n[k] == n[0]:
            Q = Qs[0]               # the same rotation on every mode keeps a symmetric unfolding symmetric
        Qs.append(Q)
        Y[k] = np.einsum('aib,ji->ajb', Y[k], Q)
    if gauge:
        for k in range(d - 1):
            r = Y[k].shape[2]
            M = random_orth(rng, r) * rng.uniform(0.5, 2., size=r)
            Y[k] = np.einsum('aib,bc->aic', Y[k], M)
            Y[k + 1] = np.einsum('ab,bic->aic', np.linalg.inv(M), Y[k + 1])
    if scale_pow:
        # distribute an exact power of two over the cores
        q, rem = divmod(scale_pow, d)
        for k in range(d):
            Y[k] = Y[k] * 2.0 ** (q + (rem if k == 0 else 0))
    if core_shifts is not None:
        # exact per-core powers of two (zero sum: the denoted tensor is unchanged, single cores leave the ordinary range)
        Y = [G * 2.0 ** int(s_) for G, s_ in zip(Y, core_shifts)]
    if order == 'F':
        Y = [np.asfortranarray(G) for G in Y]
    elif order == 'C':
        Y = [np.ascontiguousarray(G) for G in Y]
    return Y, Qs


def rotate_dense(E, Qs):
    """Apply the mode rotations to a dense tensor given in the unrotated frame."""
    for k, Q in enumerate(Qs):
        E = np.moveaxis(np.tensordot(Q, E, axes=([1], [k])), 0, k)
    return E


def survivors_dense(n, ent, live, Qs, scale=1.0):
    E = np.zeros(n)
    for t in live:
        e = ent[t - 1]
        E[tuple(e['pre']) + (t - 1,)] = np.sqrt(e['en'])
    return rotate_dense(E, Qs) * scale


def is_wellformed(Y, n=None):
    try:
        ok = all(isinstance(G, np.ndarray) and G.ndim == 3 and G.dtype.kind == 'f' for G in Y)
        ok = ok and Y[0].shape[0] == 1 and Y[-1].shape[2] == 1
        ok = ok and all(Y[k].shape[2] == Y[k + 1].shape[0] for k in range(len(Y) - 1))
        if n is not None:
            ok = ok and [G.shape[1] for G in Y] == list(n)
        ok = ok and all(np.isfinite(G).all() for G in Y)
        return bool(ok)
    except Exception:
        return False
