"""C20 - incomplete TT-SVD recovers low-rank tensors from its structured samples.

Incomplete.tla: (i) the generator's block layout and the consumer's decoding
agree for all small (n, l1, l2) (invariant LayoutAgree); (ii) the
recoverability predicate Rec over (rank profile, expected rank m, mode sizes,
cap).  TLC enumerates the configurations; for each one the harness draws
generic targets with exactly that rank profile (several power-of-two scales),
runs sample_tt + svd_incomplete and compares: always well-formed, target's
shape, ranks <= cap; equal to the target whenever Rec holds.  The block layout
of sample_tt itself is validated by TLC in C14 (Trace_Sampler, BlockOK).
"""
import numpy as np

import teneva

from . import families as F
from . import tlc


def target(rng, n, rho, scale_pow):
    d = len(n)
    cores = [rng.uniform(0.5, 1.5, size=(rho[k], n[k], rho[k + 1])) * rng.choice([-1., 1.], size=(rho[k], n[k], rho[k + 1]))
             for k in range(d)]
    cores[int(rng.integers(d))] *= 2.0 ** scale_pow
    return cores


def true_profile(n, rho):
    """the rank profile is attained only if every unfolding can carry it"""
    d = len(n)
    return all(rho[k] <= min(np.prod(n[:k]) * 1.0, np.prod(n[k:]) * 1.0) for k in range(1, d))


def run(ctx):
    ctx.rule = ('cases = (rank profile, expected rank m, mode sizes, cap) emitted by TLC x scales x seeds; distinct = that tuple; '
                'non-trivial = non-uniform rank profile, m > cap, or scale != 1')
    ctx.assumptions = ['targets: continuous random cores with entries of modulus in [0.5, 1.5] (genericity is sampled)',
                       'recovery compared at relative accuracy 1e-5, default e = 1e-10']
    res = tlc.run('Incomplete', workers=4, timeout=900)
    ctx.add_tlc(res, 'Incomplete: layout agreement (all n<=6, l1,l2<=5) and recoverability table')
    rng = np.random.default_rng(ctx.seed)
    quick = ctx.tier == 'quick'
    # one step beyond the tabulated scope: d up to 6, modes up to 20, expected ranks up to 6
    extra = []
    for t_ in range(6 if quick else 40):
        d_ = int(rng.integers(3, 7))
        rho_ = int(rng.integers(2, 5))
        m_ = rho_ + int(rng.integers(0, 3))
        n_ = [int(x) for x in rng.integers(m_, 21, size=d_)]
        prof = [1] + [rho_] * (d_ - 1) + [1]
        extra.append({'case': {'n': n_, 'rho': prof, 'm': m_, 'cap': m_ + int(rng.integers(0, 3))}, 'rec': True})
    for row in res.json + extra:
        c, rec = row['case'], row['rec']
        n, rho, m, cap = c['n'], c['rho'], c['m'], c['cap']
        if not true_profile(n, rho):
            continue
        if ctx.replay_filter and ctx.replay_filter['case'].get('case') != c:
            continue
        for sp in ((0, 24, -20) if quick else (0, 24, 27, 10, -20, -14, -24)):        # entries from 1e-7 to 1e+8
            for rep in range(1 if quick else 3):
                T = target(rng, n, rho, sp)
                seed = int(rng.integers(1 << 30))
                # "all seeds of the sample generator": integer seeds, generator objects (the designs of the modes are then
                # drawn from one continuing stream) and no seed at all
                skind = ['int', 'generator'][(rep + sp + len(n) + m + cap) % 2]      # (no seed at all would make the verdict depend on unseeded draws)
                I, idx, idxm = teneva.sample_tt(n, m, seed=seed if skind == 'int' else np.random.default_rng(seed) if skind == 'generator' else None)
                y = teneva.get_many(T, I)
                e_abs = 1e-10 * min(1., 2.0 ** (sp + 20))   # the accuracy is absolute: the default 1e-10 serves data down to 1e-6, below that it follows the data
                what = 'svd_incomplete(n=%s, target ranks %s, m=%d, cap=%d, scale 2^%d, %s seed %d)' % (n, rho, m, cap, sp, skind, seed)
                try:
                    Z = teneva.svd_incomplete(I, y, idx, idxm, e_abs, cap)
                except Exception as ex:
                    ctx.violation('svd_incomplete:raises', '%s raised %s: %s' % (what, type(ex).__name__, ex), case=row)
                    continue
                ctx.case(key=(n, rho, m, cap, sp, rep), nontrivial=len(set(rho[1:-1])) > 1 or m > cap or sp != 0,
                         sample={'n': n, 'rho': rho, 'm': m, 'cap': cap, 'scale_pow': sp, 'rec': rec})
                if not ctx.check(F.is_wellformed(Z, n), 'svd_incomplete:wellformed', what + ': not a well-formed finite TT-tensor of the target shape', case=row):
                    continue
                rk = [G.shape[2] for G in Z[:-1]]
                ctx.check(max(rk) <= cap, 'svd_incomplete:cap', what + ': ranks %s exceed the cap' % rk, case=row)
                if rec:
                    a, b = F.dense(Z), F.dense(T)
                    err = np.linalg.norm(a - b) / np.linalg.norm(b)
                    ctx.check(err <= 1e-5, 'svd_incomplete:recovery', what + ': relative error %.2e although the target is recoverable' % err, case=row)
                    # the accuracy is absolute and may be anything down to 0: tiny data with e = 0 or e far below the data
                    if rep == 0 and sp == 0:
                        for sc_, e0_ in ((2.0 ** -60, 0.), (2.0 ** -60, 1e-30), (2.0 ** -27, 0.), (1., 0.)):
                            Z0 = teneva.svd_incomplete(I, y * sc_, idx, idxm, e0_, cap)
                            ok0 = F.is_wellformed(Z0, n) and np.linalg.norm(F.dense(Z0) / sc_ - b) <= 1e-5 * np.linalg.norm(b)
                            ctx.check(ok0, 'svd_incomplete:recovery', what + ': data times %.3g with e = %g is not recovered' % (sc_, e0_), case=row)
                    # the same sample arrays used again (a sweep over caps): the data must be intact and the answer the same
                    y_keep, I_keep = y.copy(), I.copy()
                    Z2 = teneva.svd_incomplete(I, y, idx, idxm, e_abs, cap + 1)
                    Z3 = teneva.svd_incomplete(I, y, idx, idxm, e_abs, cap)
                    ok2 = np.array_equal(y, y_keep) and np.array_equal(I, I_keep) and F.is_wellformed(Z3, n)
                    if ok2:
                        e3 = np.linalg.norm(F.dense(Z3) - b) / np.linalg.norm(b)
                        ok2 = e3 <= 1e-5
                    ctx.check(ok2, 'svd_incomplete:reuse', what + ': a further reconstruction from the same sample arrays differs (data changed: %s)' % (not np.array_equal(y, y_keep)), case=row)
    # many modes (the number of tensor elements is far above 2^63: any bookkeeping of sizes must not go through fixed-width
    # integers); recovery is judged on the sample itself and on random entries through TT evaluation
    for n_ in ([4] * 40, [10] * 25, [5, 4, 6] * 14) if quick else ([4] * 40, [10] * 25, [5, 4, 6] * 14, [3] * 70, [2] * 90, [7, 3] * 30):
        for rho_, m_ in ((2, 2), (2, 3)):
            d_ = len(n_)
            if min(n_) < m_:
                continue
            prof = [1] + [rho_] * (d_ - 1) + [1]
            T = [G / np.sqrt(G.shape[1]) for G in target(rng, n_, prof, 0)]
            seed = int(rng.integers(1 << 30))
            I, idx, idxm = teneva.sample_tt(n_, m_, seed=seed)
            y = teneva.get_many(T, I)
            what = 'svd_incomplete(n=[..%d modes..] %s, target rank %d, m=%d, seed %d)' % (d_, n_[:3], rho_, m_, seed)
            ctx.case(key=('many-modes', tuple(n_), rho_, m_), nontrivial=True)
            try:
                Z = teneva.svd_incomplete(I, y, idx, idxm, 0., m_)
            except Exception as ex:
                ctx.violation('svd_incomplete:raises', '%s raised %s: %s' % (what, type(ex).__name__, ex))
                continue
            if not ctx.check(F.is_wellformed(Z, n_), 'svd_incomplete:wellformed', what + ': not a well-formed finite TT-tensor of the target shape'):
                continue
            J = np.vstack([I, np.stack([rng.integers(0, k, size=400) for k in n_], axis=1)])
            zt, tt_ = np.asarray(teneva.get_many(Z, J)), np.asarray(teneva.get_many(T, J))
            err = np.abs(zt - tt_).max() / np.abs(tt_).max()
            ctx.check(err <= 1e-5 and max(G.shape[2] for G in Z) <= m_, 'svd_incomplete:recovery', what + ': relative error %.2e on the sample and on 400 random entries (ranks %s)' % (err, sorted(set(G.shape[2] for G in Z[:-1]))))
