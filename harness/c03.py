"""C03 - TT-SVD meets the sqrt(d-1)*e bound with capped, quasi-optimal ranks.

Rounding.tla with dir = "ltr" (absolute per-unfolding budget) models
teneva.svd; D = 2 models matrix_skeleton (all give_to modes, rel on/off) and
matrix_svd.  Every emitted case is replayed at several power-of-two scales.
BitPerm.tla gives the index interleaving of svd_matrix / full_matrix; TLC
checks that the two permutations are mutually inverse and emits the table.
"""
import numpy as np

import teneva

from . import families as F
from . import rounding as RD
from . import tlc


def replay_bitperm(ctx):
    res = tlc.run('BitPerm', workers=4, timeout=600)
    ctx.add_tlc(res, 'BitPerm: interleaving permutations mutually inverse (all (row, col), q<=QMax)')
    n = 0
    for row in res.json:
        q, r, c, idx = row['q'], row['r'], row['c'], row['idx']
        N = 1 << q
        A = np.zeros((N, N))
        A[r, c] = 3.0
        Y = teneva.svd_matrix(A, 1e-12)
        Fd = F.dense(Y) if q > 1 else Y[0][0, :, 0]
        nz = np.argwhere(np.abs(Fd) > 1e-9)
        ok = F.is_wellformed(Y, [4] * q) and len(nz) == 1 and list(nz[0]) == list(idx) and abs(Fd[tuple(idx)] - 3.0) < 1e-9
        ctx.case(key=('svd_matrix', q, r, c), nontrivial=q >= 2)
        ctx.check(ok, 'svd_matrix:interleave', 'single entry (%d,%d) of a 2^%d matrix lands at TT index %s, specification %s'
                  % (r, c, q, nz.tolist(), idx), case=row)
        # inverse direction: delta QTT-matrix -> full_matrix
        cores = [np.zeros((1, 4, 1)) for _ in range(q)]
        for k_, i_ in enumerate(idx):
            cores[k_][0, i_, 0] = 1.
        if q > 1:
            B = teneva.full_matrix(cores)
            nzb = np.argwhere(np.abs(B) > 1e-12)
            ctx.check(len(nzb) == 1 and list(nzb[0]) == [r, c], 'full_matrix:interleave',
                      'delta QTT at %s exported to %s, specification (%d,%d)' % (idx, nzb.tolist(), r, c), case=row)
        n += 1
    if n == 0:
        raise tlc.TlcError('BitPerm emitted nothing')
    # round trip on random matrices
    rng = np.random.default_rng(ctx.seed + 5)
    for q in (2, 3):
        A = rng.normal(size=(1 << q, 1 << q))
        B = teneva.full_matrix(teneva.svd_matrix(A, 1e-12))
        ctx.case(key=('roundtrip', q), nontrivial=True)
        ctx.check(np.abs(A - B).max() < 1e-9, 'svd_matrix:roundtrip', 'full_matrix(svd_matrix(A)) != A (q=%d)' % q)


def _svd_worker(task):
    case, seed = task
    rng = np.random.default_rng(seed)
    sp = int(rng.choice([0, -20, 20, -10, 10]))
    RD.set_lam(2.0 ** -60)
    if RD.tiered(case) and rng.random() < 0.5:
        RD.set_lam(2.0 ** -80)       # dynamic range 1e12 inside one tensor: with sp = -20 the requested e is ~1e-18
    try:
        msg = RD.replay_svd(None, case, rng, scale_pow=sp)
    except Exception as ex:
        msg = 'svd raised %s: %s' % (type(ex).__name__, ex)
    reduced = any(a < b for o in case['outcomes'] for a, b in zip(o['ranks'], RD.input_ranks(case)))
    RD.set_lam(2.0 ** -60)
    out = [('case', (case['ent'], case['T'], case['cap'], 'svd'), reduced,
            {'entries': case['ent'], 'T': case['T'], 'cap': case['cap'], 'scale_pow': sp, 'outcomes': case['outcomes'][:2]} if seed % 997 == 0 else None)]
    if msg:
        out.append(('viol', 'svd', msg, case))
    return out


def _matrix_worker(task):
    case, seed = task
    rng = np.random.default_rng(seed)
    sp = int(rng.choice([0, -20, 20]))
    if case['dir'] == 'rel':
        fn, gt = 'skeleton', ['l', 'm', 'r'][int(rng.integers(3))]
    else:
        fn = ['skeleton', 'svd'][int(rng.integers(2))]
        gt = ['l', 'm', 'r'][int(rng.integers(3))]
        if RD.tiered(case):
            fn = 'skeleton'          # matrix_svd works through a Gram matrix: sqrt(eps) floor
    RD.set_lam(2.0 ** -60)
    if RD.tiered(case) and rng.random() < 0.5:
        RD.set_lam(2.0 ** -80)
    if rng.random() < 0.5:
        ns = RD.near_symmetric(case, rng, exact=bool(rng.integers(2)))         # square unfoldings symmetric exactly / up to ~1e-6 (exact outcomes unchanged)
        if ns is not None:
            case = ns
    if case['dir'] == 'ltr' and rng.random() < 0.4:
        fn = 'ttsvd'                               # the d = 2 TT-SVD is the same factorisation reached through teneva.svd
    try:
        msg = RD.replay_svd(None, case, rng, scale_pow=sp) if fn == 'ttsvd' else RD.replay_matrix(None, case, rng, fn, give_to=gt, scale_pow=sp)
    except Exception as ex:
        msg = 'matrix_%s raised %s: %s' % (fn, type(ex).__name__, ex)
    RD.set_lam(2.0 ** -60)
    reduced = any(o['ranks'][0] < RD.input_ranks(case)[0] for o in case['outcomes'])
    out = [('case', (case['ent'], case['T'], case['cap'], case['dir'], fn, gt), reduced, None)]
    if msg:
        out.append(('viol', 'matrix_' + fn, msg, case))
    return out


def run(ctx):
    ctx.rule = ('cases = (family member, absolute threshold T+1/2, cap, scale) emitted by TLC x routine '
                '(svd, matrix_skeleton l/m/r, rel, matrix_svd tall/wide) + interleaving table; '
                'non-trivial = at least one rank is actually reduced (q>=2 for the table)')
    ctx.assumptions = ['exact decisions on the distinct-last-index family and its orbit under mode rotations and power-of-two scaling',
                       'ties straddling a cut are checked by the inequalities only']
    rng = np.random.default_rng(ctx.seed)
    quick = ctx.tier == 'quick'
    cfgs = ['Rounding_c03_q.cfg', 'Rounding_c03_tier.cfg'] if quick else ['Rounding_c03_q.cfg', 'Rounding_c03_tier.cfg', 'Rounding_c03_t1.cfg', 'Rounding_c03_t2.cfg']
    for cfg in cfgs:
        cases = RD.emit(ctx, cfg, 'Rounding ltr: ' + cfg, workers=16)
        order = rng.permutation(len(cases))
        if ctx.replay_filter and ctx.replay_filter['case'].get('d', 0) > 2:
            cases, order = [ctx.replay_filter['case']], [0]
        from . import common
        tasks = [(cases[j], int(ctx.seed * 1000003 + j)) for j in order[:5000 if quick else len(cases)]]
        common.pmap(ctx, _svd_worker, tasks)
    mcfg = 'Rounding_c03_m.cfg' if quick else 'Rounding_c03_t3.cfg'
    cases = RD.emit(ctx, mcfg, 'Rounding D=2 (matrix factorisations): ' + mcfg, workers=16)
    tc = RD.emit(ctx, 'Rounding_c03_tierm.cfg', 'Rounding D=2 with thresholds at relative size 1e-9 (tier encoding)', workers=16)
    cases = cases + [tc[j] for j in rng.permutation(len(tc))[:(3000 if quick else len(tc))]]
    order = rng.permutation(len(cases))
    if ctx.replay_filter and ctx.replay_filter['case'].get('d', 0) == 2:
        cases, order = [ctx.replay_filter['case']], [0]
    from . import common
    tasks = [(cases[j], int(ctx.seed * 1000003 + j + 7)) for j in order[:6000 if quick else len(cases)]]
    common.pmap(ctx, _matrix_worker, tasks)
    replay_bitperm(ctx)
    # one step beyond the small scope (inequalities and exact-rank reproduction only): arrays with 10^4 .. 10^5 entries
    for t in range(6 if quick else 40):
        d = int(rng.integers(3, 6))
        n = [int(x) for x in rng.integers(4, 13, size=d)]
        while int(np.prod(n)) > 120000:
            n[int(np.argmax(n))] -= 2
        rr = [1] + [int(x) for x in rng.integers(2, 6, size=d - 1)] + [1]
        T = [rng.normal(size=(rr[k], n[k], rr[k + 1])) for k in range(d)]
        A = F.dense(T) * 2.0 ** int(rng.choice([0, -20, 20]))
        nA = float(np.linalg.norm(A))
        true_r = [int(np.linalg.matrix_rank(A.reshape(int(np.prod(n[:k])), -1))) for k in range(1, d)]
        ctx.case(key=('large-svd', n, rr, t, ctx.seed), nontrivial=True)
        Z = teneva.svd(A.copy(), e=1e-9 * nA)
        okz = F.is_wellformed(Z, n) and [G.shape[2] for G in Z[:-1]] == true_r and np.linalg.norm(F.dense(Z) - A) <= 1e-8 * nA
        ctx.check(okz, 'svd:exact-rank', 'svd of an array of shape %s with exact TT-ranks %s: ranks %s / not reproduced to rounding accuracy' % (n, true_r, [G.shape[2] for G in Z[:-1]] if F.is_wellformed(Z, n) else None))
        N = A + 1e-3 * nA / np.sqrt(A.size) * rng.normal(size=A.shape)          # full-rank perturbation
        for e_rel, cap in ((1e-2, 1e12), (1e-5, 3), (0.3, 2.5)):
            e_ = e_rel * nA
            Zc = teneva.svd(N.copy(), e=e_, r=cap)
            okc = F.is_wellformed(Zc, n)
            if okc:
                rk = [G.shape[2] for G in Zc[:-1]]
                okc = all(1 <= x <= max(1, int(cap)) for x in rk)
                sv = [np.linalg.svd(N.reshape(int(np.prod(n[:k])), -1), compute_uv=False) for k in range(1, d)]
                minr = [int(max(1, np.sum(np.cumsum(s_[::-1] ** 2)[::-1] > e_ * e_))) for s_ in sv]
                okc = okc and all(x <= m_ for x, m_ in zip(rk, minr))
                if cap > 100:
                    okc = okc and np.linalg.norm(F.dense(Zc) - N) <= e_ * np.sqrt(d - 1) * (1 + 1e-9)
            ctx.check(okc, 'svd:large', 'svd(e=%g*||A||, r=%s) of a full-rank array of shape %s: cap, quasi-optimal ranks or the error bound e*sqrt(d-1) violated' % (e_rel, cap, n))
