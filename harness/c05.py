"""C05 - TT-cross reproduces low-rank tensors and caching is transparent.

1. Design level (TLC, MC_Cross): with the cache, the counters and the cache
   flag hidden by a VIEW, the reachable state graph with and without cache is
   identical (same number of distinct states); CountInv (m + m_cache = m_plain,
   |cache| = m + |preloaded|, m <= m_plain) holds in every state, also for a
   dictionary that already holds entries.
2. code -> spec: every recorded execution is validated against Trace_Cross;
   the Return action requires the cache dictionary to hold exactly the
   evaluated index -> value pairs, info r / e / e_vld to describe the returned
   tensor, and - whenever the specification predicts exactness (ranks at the
   start of the last completed sweep >= rho) - the result to equal the target.
3. Pairs (with / without cache) of the same configuration: bit-identical
   cores, same sweep count, m_cached <= m_plain and m_cached + m_cache = m_plain.
"""
import numpy as np

from . import cross_rec as R
from . import families as F
from . import tlc
from . import c06


EXACT_CONFIGS = [
    # n, rho, r0, drmin, drmax, nswp  (ranks reach rho -> exact)
    ([3, 4, 3], 2, 2, 0, 0, 1),
    ([3, 4, 3], 2, 2, 0, 0, 2),
    ([4, 4], 3, 3, 0, 0, 1),
    ([3, 3, 3, 3], 2, 1, 1, 1, 3),
    ([5, 4, 3], 2, 1, 1, 2, 3),
    ([3, 2, 3], 2, 3, 0, 0, 1),      # start above rho (capped by what a core can carry)
    ([2, 3, 2, 3], 2, 1, 1, 1, 1),   # too few sweeps: no exactness claimed
    ([4, 5], 1, 1, 0, 0, 1),
    ([3, 3, 3], 2, 4, 0, 0, 1),      # over-capacity initial ranks, fixed-rank mode
    ([4, 6], 3, 5, 0, 0, 2),
]


def run(ctx):
    ctx.rule = ('cases = recorded executions (with/without cache, validation data, preloaded cache, faults); '
                'non-trivial = distinct (configuration, fault) for which the specification predicts exact reproduction '
                'or which run with a cache')
    ctx.assumptions = ['targets are random rank-rho tensors with entries of modulus in [0.5,1.5]^d (well conditioned)',
                       'exactness is compared at relative accuracy 1e-6',
                       'cache stop "conv" kept out of pair comparisons by m_cache_scale = 1e5']
    vq = ('MC_Cross_viewq_on.cfg', 'MC_Cross_viewq_off.cfg') if ctx.tier == 'quick' else ('MC_Cross_view_on.cfg', 'MC_Cross_view_off.cfg')
    counts = []
    for c in vq:
        res = tlc.run('MC_Cross', cfg=c, workers=16, timeout=3000)
        ctx.add_tlc(res, 'reachable graph under VIEW hiding cache and counters: ' + c)
        counts.append(res.distinct)
    if counts[0] != counts[1]:
        raise tlc.TlcError('design-level cache transparency fails in the model itself: %s distinct states' % counts)
    ctx.notes['view_equal_states'] = counts[0]
    res = tlc.run('MC_Cross', cfg='MC_Cross_pre.cfg', workers=16, timeout=3000)
    ctx.add_tlc(res, 'exhaustive model with a preloaded cache dictionary')

    confs = EXACT_CONFIGS[:4] + EXACT_CONFIGS[-2:] if ctx.tier == 'quick' else EXACT_CONFIGS + [c for c in R.BASE_CONFIGS]
    nseeds = 1 if ctx.tier == 'quick' else 4
    trs = []
    for k, (n, rho, r0, a, b, nswp) in enumerate(confs):
        for s in range(nseeds):
            seed = 100 + 17 * k + s + ctx.seed
            for ydtype in (None, ['float32', 'int64', 'float16', 'int32'][(k + s) % 4], ['scale', -40], ['scale', 60]):
                pair = {}
                for cache in (False, True):
                    if isinstance(ydtype, list):
                        tr, info, nc, Y = R.record(n, rho, r0, a, b, nswp, cache, seed=seed, return_Y=True, fscale_pow=ydtype[1])
                    else:
                        tr, info, nc, Y = R.record(n, rho, r0, a, b, nswp, cache, seed=seed, return_Y=True, ydtype=ydtype)
                    pair[cache] = (tr, info, Y)
                    trs.append(tr)
                    if ydtype is None:
                        trs.append(R.record(n, rho, r0, a, b, nswp, cache, seed=seed, vld=True, e_vld=1e-9)[0])
                        trs.append(R.record(n, rho, r0, a, b, 12, cache, seed=seed, e=1e-6, m=20000)[0])
                (t0, i0, Y0), (t1, i1, Y1) = pair[False], pair[True]
                if Y0 is None or Y1 is None:
                    continue
                same = len(Y0) == len(Y1) and all(a_.shape == b_.shape and np.array_equal(a_, b_) for a_, b_ in zip(Y0, Y1))
                ctx.case(key=('pair', n, rho, r0, a, b, nswp, seed, repr(ydtype)), nontrivial=True,
                         sample={'pair': {'n': n, 'rho': rho, 'r0': r0, 'dr': [a, b], 'nswp': nswp},
                                 'm_plain': i0['m'], 'm_cached': i1['m'], 'm_cache': i1['m_cache']})
                ctx.check(same and i0['nswp'] == i1['nswp'] and i0['stop'] == i1['stop'], 'cross:cache-transparency',
                          'cache changes the result: cores equal=%s nswp %s/%s stop %s/%s (cfg %s seed %d)'
                          % (same, i0['nswp'], i1['nswp'], i0['stop'], i1['stop'], (n, rho, r0, a, b, nswp), seed),
                          case={'cfg': [n, rho, r0, a, b, nswp], 'seed': seed})
                ctx.check(i1['m'] <= i0['m'] and i1['m'] + i1['m_cache'] == i0['m'], 'cross:cache-counts',
                          'cache counters: m_cached=%d m_cache=%d m_plain=%d (cfg %s seed %d)'
                          % (i1['m'], i1['m_cache'], i0['m'], (n, rho, r0, a, b, nswp), seed),
                          case={'cfg': [n, rho, r0, a, b, nswp], 'seed': seed})
    # the cache-convergence stop at and around equality (m_cache_scale = 0 without a cache must never fire; small scales
    # with a cache tie exactly for fixed-rank runs): exactness and transparency are judged by the trace specification
    for k, (n, rho, r0, a, b, nswp) in enumerate(confs + [R.BASE_CONFIGS[-1]]):
        seed = 300 + k + ctx.seed
        trs.append(R.record(n, rho, r0, a, b, nswp, False, seed=seed, mcs=0)[0])
        for mcs_ in (0, 1, 2, 5):
            trs.append(R.record(n, rho, r0, a, b, max(nswp, 4) if b == 0 else nswp, True, seed=seed, mcs=mcs_)[0])
    # working rank fixed below the target's rank, cache and validation data: later sweeps are served (almost) entirely from
    # the cache while the pivots - and with them the tensor - still move; the validation error in info must follow the
    # tensor of every sweep (checked at every callback and at the return), and the cached run must report what the
    # uncached run reports
    for (n, rho, r0) in (([3, 3, 3], 3, 2), ([4, 4, 4], 4, 3), ([3, 3, 3, 3], 3, 2)):
        for sd in range(6 if ctx.tier == 'quick' else 25):
            pr_ = {}
            for cache in (False, True):
                tr_, info_, _nc = R.record(n, rho, r0, 0, 0, 6, cache, seed=500 + sd + ctx.seed, vld=True)
                trs.append(tr_)
                pr_[cache] = info_
            ctx.case(key=('under-ranked', tuple(n), rho, r0, sd), nontrivial=True)
            ctx.check(pr_[False].get('e_vld') == pr_[True].get('e_vld') and pr_[False].get('nswp') == pr_[True].get('nswp'), 'cross:cache-transparency',
                      'under-ranked fixed-rank run (n=%s, rho=%d, r=%d): the cached run reports e_vld=%r after %r sweeps, the uncached one %r after %r'
                      % (n, rho, r0, pr_[True].get('e_vld'), pr_[True].get('nswp'), pr_[False].get('e_vld'), pr_[False].get('nswp')),
                      case={'cfg': [n, rho, r0, 0, 0, 6], 'seed': 500 + sd + ctx.seed})
    # fault suites with validation data / preloaded dictionaries
    fs = R.BASE_CONFIGS[:2] if ctx.tier == 'quick' else R.BASE_CONFIGS
    for k, (n, rho, r0, a, b, nswp) in enumerate(fs):
        trs += [t for t in R.fault_suite(n, rho, r0, a, b, nswp, True, seed=40 + k + ctx.seed)
                if t['meta']['vld'] or t['meta']['npre']]
        trs += [t for t in R.fault_suite(n, rho, r0, a, b, nswp, False, seed=40 + k + ctx.seed) if t['meta']['vld']]
    verdicts = c06.validate(ctx, trs, sigprefix='cross:trace')
    npred = 0
    for t in trs:
        # how many traces carried an exactness obligation (non-vacuity)
        rr = t['ev'][-1]
        if rr.get('stop') in ('nswp', 'e', 'e_vld', 'cb', 'conv') and rr.get('acc_ok'):
            npred += 1
    ctx.notes['traces_ending_exact'] = npred
    # the cache dictionary seen through the library's own reader: cache_to_data(cache) lists exactly the keys (one row
    # per key, integer typed) with the oracle's values, the number of rows is info['m'],
    # and the returned tensor reproduces these data (accuracy_on_data) once the run is exact
    import teneva
    for k, (n, rho, r0, a, b, nswp) in enumerate(confs[:4]):
        rng_ = np.random.default_rng(900 + k + ctx.seed)
        rr_ = [1] + [rho] * (len(n) - 1) + [1]
        T_ = [rng_.normal(size=(rr_[j], n[j], rr_[j + 1])) for j in range(len(n))]
        Td = F.dense(T_)
        calls_ = []

        def f_(I, Td=Td, calls_=calls_):
            calls_.append(np.array(I, copy=True))
            return Td[tuple(np.asarray(I).T)]
        cache_, info_ = {}, {}
        Y0_ = teneva.rand(n, max(r0, 1), seed=int(rng_.integers(1 << 30)))
        Yc = teneva.cross(f_, Y0_, nswp=nswp, dr_min=a, dr_max=b, cache=cache_, info=info_)
        keys_ = list(cache_.keys())
        Ic, yc = teneva.cache_to_data(cache_)
        ctx.case(key=('cache_to_data', tuple(n), rho, r0, a, b, nswp), nontrivial=len(keys_) > 1)
        okc = isinstance(Ic, np.ndarray) and isinstance(yc, np.ndarray) and Ic.shape == (len(keys_), len(n)) and yc.shape == (len(keys_),)
        okc = okc and np.issubdtype(Ic.dtype, np.integer) and len(keys_) == info_['m'] == sum(len(c_) for c_ in calls_)
        # (the order of the rows is not part of the contract: pairs are compared as a set)
        okc = okc and sorted(zip(map(tuple, Ic.tolist()), yc.tolist())) == sorted((k_, float(cache_[k_])) for k_ in keys_) and np.array_equal(yc, Td[tuple(Ic.T)]) and list(cache_.keys()) == keys_
        okc = okc and len(set(keys_)) == len(keys_) and set(keys_) == set(tuple(int(x) for x in row) for c_ in calls_ for row in c_)
        ctx.check(okc, 'cross:cache-contents', 'cache_to_data(cache) after a cached run is not the list of evaluated index -> value pairs '
                  '(rows %s, keys %d, info m %s, oracle rows %d)' % (getattr(Ic, 'shape', None), len(keys_), info_.get('m'), sum(len(c_) for c_ in calls_)),
                  case={'cfg': [n, rho, r0, a, b, nswp]})
        if okc and max(r0, 1) + (nswp if a >= 1 else 0) >= rho and (a >= 1 or r0 >= rho) and nswp >= 2:
            ea = teneva.accuracy_on_data(Yc, Ic, yc)
            ctx.check(ea <= 1e-6, 'cross:cache-contents', 'the tensor returned by an exact run does not reproduce the data read from its own cache: accuracy_on_data = %.2e' % ea,
                      case={'cfg': [n, rho, r0, a, b, nswp]})
    if npred == 0:
        raise tlc.TlcError('no trace reached exact reproduction: exactness clause would be vacuous')


def selftest(ctx):
    from . import selftest as ST
    return ST.cross(ctx)
