"""C05 - TT-cross reproduces low-rank tensors and caching is transparent.

1. Design level (TLC, MC_Cross): with the cache, the counters and the cache
   flag hidden by a VIEW, the reachable state graph with and without cache is
   identical (same number of distinct states); CountInv (m + m_cache = m_plain,
   |cache| = m + |preloaded|, m <= m_plain) holds in every state, also for a
   dictionary that already holds entries.
2. code -> spec: every recorded execution is validated against Trace_Cross;
   the Return action requires the cache dictionary to hold exactly the
   evaluated index -> value pairs, info r / e / e_vld to describe the returned
   tensor, and - whenever the specification predicts exactness (ranks at the
   start of the last completed sweep >= rho) - the result to equal the target.
3. Pairs (with / without cache) of the same configuration: bit-identical
   cores, same sweep count, m_cached <= m_plain and m_cached + m_cache = m_plain.
"""
import numpy as np

from . import cross_rec as R
from . import tlc
from . import c06


EXACT_CONFIGS = [
    # n, rho, r0, drmin, drmax, nswp  (ranks reach rho -> exact)
    ([3, 4, 3], 2, 2, 0, 0, 1),
    ([3, 4, 3], 2, 2, 0, 0, 2),
    ([4, 4], 3, 3, 0, 0, 1),
    ([3, 3, 3, 3], 2, 1, 1, 1, 3),
    ([5, 4, 3], 2, 1, 1, 2, 3),
    ([3, 2, 3], 2, 3, 0, 0, 1),      # start above rho (capped by what a core can carry)
    ([2, 3, 2, 3], 2, 1, 1, 1, 1),   # too few sweeps: no exactness claimed
    ([4, 5], 1, 1, 0, 0, 1),
    ([3, 3, 3], 2, 4, 0, 0, 1),      # over-capacity initial ranks, fixed-rank mode
    ([4, 6], 3, 5, 0, 0, 2),
]


def run(ctx):
    ctx.rule = ('cases = recorded executions (with/without cache, validation data, preloaded cache, faults); '
                'non-trivial = distinct (configuration, fault) for which the specification predicts exact reproduction '
                'or which run with a cache')
    ctx.assumptions = ['targets are random rank-rho tensors with entries of modulus in [0.5,1.5]^d (well conditioned)',
                       'exactness is compared at relative accuracy 1e-6',
                       'cache stop "conv" kept out of pair comparisons by m_cache_scale = 1e5']
    vq = ('MC_Cross_viewq_on.cfg', 'MC_Cross_viewq_off.cfg') if ctx.tier == 'quick' else ('MC_Cross_view_on.cfg', 'MC_Cross_view_off.cfg')
    counts = []
    for c in vq:
        res = tlc.run('MC_Cross', cfg=c, workers=16, timeout=3000)
        ctx.add_tlc(res, 'reachable graph under VIEW hiding cache and counters: ' + c)
        counts.append(res.distinct)
    if counts[0] != counts[1]:
        raise tlc.TlcError('design-level cache transparency fails in the model itself: %s distinct states' % counts)
    ctx.notes['view_equal_states'] = counts[0]
    res = tlc.run('MC_Cross', cfg='MC_Cross_pre.cfg', workers=16, timeout=3000)
    ctx.add_tlc(res, 'exhaustive model with a preloaded cache dictionary')

    confs = EXACT_CONFIGS[:4] + EXACT_CONFIGS[-2:] if ctx.tier == 'quick' else EXACT_CONFIGS + [c for c in R.BASE_CONFIGS]
    nseeds = 1 if ctx.tier == 'quick' else 4
    trs = []
    for k, (n, rho, r0, a, b, nswp) in enumerate(confs):
        for s in range(nseeds):
            seed = 100 + 17 * k + s + ctx.seed
            for ydtype in (None, ['float32', 'int64', 'float16', 'int32'][(k + s) % 4], ['scale', -40], ['scale', 60]):
                pair = {}
                for cache in (False, True):
                    if isinstance(ydtype, list):
                        tr, info, nc, Y = R.record(n, rho, r0, a, b, nswp, cache, seed=seed, return_Y=True, fscale_pow=ydtype[1])
                    else:
                        tr, info, nc, Y = R.record(n, rho, r0, a, b, nswp, cache, seed=seed, return_Y=True, ydtype=ydtype)
                    pair[cache] = (tr, info, Y)
                    trs.append(tr)
                    if ydtype is None:
                        trs.append(R.record(n, rho, r0, a, b, nswp, cache, seed=seed, vld=True, e_vld=1e-9)[0])
                        trs.append(R.record(n, rho, r0, a, b, 12, cache, seed=seed, e=1e-6, m=20000)[0])
                (t0, i0, Y0), (t1, i1, Y1) = pair[False], pair[True]
                if Y0 is None or Y1 is None:
                    continue
                same = len(Y0) == len(Y1) and all(a_.shape == b_.shape and np.array_equal(a_, b_) for a_, b_ in zip(Y0, Y1))
                ctx.case(key=('pair', n, rho, r0, a, b, nswp, seed, repr(ydtype)), nontrivial=True,
                         sample={'pair': {'n': n, 'rho': rho, 'r0': r0, 'dr': [a, b], 'nswp': nswp},
                                 'm_plain': i0['m'], 'm_cached': i1['m'], 'm_cache': i1['m_cache']})
                ctx.check(same and i0['nswp'] == i1['nswp'] and i0['stop'] == i1['stop'], 'cross:cache-transparency',
                          'cache changes the result: cores equal=%s nswp %s/%s stop %s/%s (cfg %s seed %d)'
                          % (same, i0['nswp'], i1['nswp'], i0['stop'], i1['stop'], (n, rho, r0, a, b, nswp), seed),
                          case={'cfg': [n, rho, r0, a, b, nswp], 'seed': seed})
                ctx.check(i1['m'] <= i0['m'] and i1['m'] + i1['m_cache'] == i0['m'], 'cross:cache-counts',
                          'cache counters: m_cached=%d m_cache=%d m_plain=%d (cfg %s seed %d)'
                          % (i1['m'], i1['m_cache'], i0['m'], (n, rho, r0, a, b, nswp), seed),
                          case={'cfg': [n, rho, r0, a, b, nswp], 'seed': seed})
    # the cache-convergence stop at and around equality (m_cache_scale = 0 without a cache must never fire; small scales
    # with a cache tie exactly for fixed-rank runs): exactness and transparency are judged by the trace specification
    for k, (n, rho, r0, a, b, nswp) in enumerate(confs + [R.BASE_CONFIGS[-1]]):
        seed = 300 + k + ctx.seed
        trs.append(R.record(n, rho, r0, a, b, nswp, False, seed=seed, mcs=0)[0])
        for mcs_ in (0, 1, 2, 5):
            trs.append(R.record(n, rho, r0, a, b, max(nswp, 4) if b == 0 else nswp, True, seed=seed, mcs=mcs_)[0])
    # fault suites with validation data / preloaded dictionaries
    fs = R.BASE_CONFIGS[:2] if ctx.tier == 'quick' else R.BASE_CONFIGS
    for k, (n, rho, r0, a, b, nswp) in enumerate(fs):
        trs += [t for t in R.fault_suite(n, rho, r0, a, b, nswp, True, seed=40 + k + ctx.seed)
                if t['meta']['vld'] or t['meta']['npre']]
        trs += [t for t in R.fault_suite(n, rho, r0, a, b, nswp, False, seed=40 + k + ctx.seed) if t['meta']['vld']]
    verdicts = c06.validate(ctx, trs, sigprefix='cross:trace')
    npred = 0
    for t in trs:
        # how many traces carried an exactness obligation (non-vacuity)
        rr = t['ev'][-1]
        if rr.get('stop') in ('nswp', 'e', 'e_vld', 'cb', 'conv') and rr.get('acc_ok'):
            npred += 1
    ctx.notes['traces_ending_exact'] = npred
    if npred == 0:
        raise tlc.TlcError('no trace reached exact reproduction: exactness clause would be vacuous')


def selftest(ctx):
    from . import selftest as ST
    return ST.cross(ctx)
