"""C19 - explicit constructors build exactly the tensor they describe.

Construct.tla computes, for every case inside the bounds (all shapes, all
zero lists x protected indices, all delta positions incl. negative and out of
range ones, polynomial parameters), the dense denotation and checks the
property's consequences on the model; every emitted case is replayed.
Random constructors are called with an auditing generator: the recorded draw
requests must carry the requested distribution and exactly the number of
parameters the specification computes for the rank profile.
"""
import itertools

import numpy as np

import teneva

from . import families as F
from . import tlc
from .audit import AuditGen

VALUES = [3.0, -2.5, 1.0, 0.0, 2.0 ** -70, -1e-20, 1e-16, 7, float(np.nextafter(1e-16, 1)), -1.5e-16, 2.0 ** -52, 3e-16, -1e-15, 1e-300]


def close(a, b, ulps=16):
    a = np.asarray(a, dtype=float)
    b = np.asarray(b, dtype=float)
    return a.shape == b.shape and bool(np.all(np.abs(a - b) <= ulps * np.finfo(float).eps * np.abs(b)))


def run(ctx):
    ctx.rule = ('cases = constructor calls emitted by TLC (kind, shape, arguments) x values v; distinct = (kind, arguments, v); '
                'non-trivial = a zero list / protected index / negative position / d>=3 is involved')
    ctx.assumptions = ['dense export through an independent einsum chain', 'const / delta carry a d-th root: compared at 16 ulp']
    res = tlc.run('Construct', cfg='Construct.cfg' if ctx.tier == 'quick' else 'Construct_t.cfg', workers=8, timeout=3000)
    ctx.add_tlc(res, 'Construct: all constructor cases inside the bounds')
    rng = np.random.default_rng(ctx.seed)
    for row in res.json:
        c, e = row['case'], row['exp']
        kind = c['kind']
        if ctx.replay_filter and ctx.replay_filter['case'].get('case') != c:
            continue
        if kind == 'const':
            zs = c['zs'] if c['zs'] else None
            inz = c['inz'] if c['inz'] else None
            for v in VALUES:
                raised = False
                try:
                    variants = [(c['n'], zs, inz), (np.array(c['n']), None if zs is None else np.array(zs), None if inz is None else np.array(inz))]
                    Y = teneva.const(*variants[int(rng.integers(2))][0:1], v, variants[0][1], variants[0][2])
                except ValueError:
                    raised = True
                ctx.case(key=('const', c['n'], c['zs'], c['inz'], v), nontrivial=bool(c['zs']))
                if e['raises']:
                    ctx.check(raised, 'const:conflict', 'const(%s, v=%s, I_zero=%s, i_non_zero=%s) must raise ValueError' % (c['n'], v, zs, inz), case=row)
                    continue
                if not ctx.check(not raised and F.is_wellformed(Y, c['n']), 'const:wellformed', 'const(%s, %s, %s, %s) raised or is malformed' % (c['n'], v, zs, inz), case=row):
                    continue
                D = F.dense(Y)
                ok = True
                if zs is None:
                    ok = close(D, np.full(c['n'], float(v)))
                else:
                    # consequences only: values in {v, 0}, zero at listed indices, v at the protected one
                    ok = bool(np.all((D == 0) | (np.abs(D - v) <= 16 * np.finfo(float).eps * abs(v))))
                    ok = ok and all(D[tuple(z)] == 0 for z in zs)
                    if inz is not None:
                        ok = ok and abs(D[tuple(inz)] - v) <= 16 * np.finfo(float).eps * abs(v)
                    # the model's own mask is one admissible realisation: the number of non-zeros need not agree
                ctx.check(ok, 'const:value', 'const(%s, v=%s, I_zero=%s, i_non_zero=%s) has wrong entries' % (c['n'], v, zs, inz), case=row)
        elif kind == 'delta':
            for v in VALUES:
                Y = teneva.delta(c['n'], c['i'], v)
                ref = np.array(e['mask'], dtype=float).reshape(c['n']) * v
                ctx.case(key=('delta', c['n'], c['i'], v), nontrivial=len(c['n']) >= 3)
                ctx.check(F.is_wellformed(Y, c['n']) and close(F.dense(Y), ref), 'delta:value',
                          'delta(%s, %s, %s) differs from the specification' % (c['n'], c['i'], v), case=row)
                # every position may equally be given from the end (i - n): per mode, in any combination, as list or array
                for mask_ in range(1, 1 << len(c['n'])):
                    if len(c['n']) > 3 and mask_ not in (1, (1 << len(c['n'])) - 1, 5):
                        continue
                    ineg = [ik - nk if ((mask_ >> k_) & 1 and ik >= 0) else ik for k_, (ik, nk) in enumerate(zip(c['i'], c['n']))]
                    for form in (list(ineg), np.array(ineg)):
                        Yn = teneva.delta(c['n'], form, v)
                        ctx.check(F.is_wellformed(Yn, c['n']) and close(F.dense(Yn), ref), 'delta:value',
                                  'delta(%s, %s, %s) (positions counted from the end) differs from delta at %s' % (c['n'], ineg, v, c['i']), case=row)
        elif kind == 'vdelta':
            for v in (1.0, -4.0, 0.5):
                raised = False
                try:
                    Y = teneva.vector_delta(c['q'], c['i'], v)
                except ValueError:
                    raised = True
                ctx.case(key=('vdelta', c['q'], c['i'], v), nontrivial=c['i'] < 0)
                if e['raises']:
                    ctx.check(raised, 'vector_delta:range', 'vector_delta(%d, %d) must raise ValueError' % (c['q'], c['i']), case=row)
                    continue
                ref = np.zeros([2] * c['q'])
                ref[tuple(e['bits'])] = v
                ok = not raised and F.is_wellformed(Y, [2] * c['q']) and np.array_equal(F.dense(Y), ref)
                ctx.check(ok, 'vector_delta:value', 'vector_delta(%d, %d, %s): wrong position / value' % (c['q'], c['i'], v), case=row)
        elif kind == 'mdelta':
            for v in (1.0, -4.0):
                raised = False
                try:
                    Y = teneva.matrix_delta(c['q'], c['i'], c['j'], v)
                except ValueError:
                    raised = True
                ctx.case(key=('mdelta', c['q'], c['i'], c['j'], v), nontrivial=c['i'] < 0 or c['j'] < 0)
                if e['raises']:
                    ctx.check(raised, 'matrix_delta:range', 'matrix_delta(%d, %d, %d) must raise ValueError' % (c['q'], c['i'], c['j']), case=row)
                    continue
                ok = not raised and len(Y) == c['q'] and all(G.shape == (1, 2, 2, 1) for G in Y)
                if ok:
                    Z = Y[0][0]
                    for G in Y[1:]:
                        Z = np.einsum('...a,aijb->...ijb', Z, G)
                    Z = Z[..., 0]                       # axes: (i_0, j_0, i_1, j_1, ...)
                    ref = np.zeros([2, 2] * c['q'])
                    pos = tuple(x for k in range(c['q']) for x in (e['bi'][k], e['bj'][k]))
                    ref[pos] = v
                    ok = np.array_equal(Z, ref)
                ctx.check(ok, 'matrix_delta:value', 'matrix_delta(%d, %d, %d, %s): wrong position / value' % (c['q'], c['i'], c['j'], v), case=row)
        elif kind == 'poly':
            Y = teneva.poly(c['n'], shift=np.array(c['shift'], dtype=float), power=c['power'], scale=float(c['scale']))
            ref = np.array(e['vals'], dtype=float).reshape(c['n'])
            ctx.case(key=('poly', c['n'], c['shift'], c['power'], c['scale']), nontrivial=len(c['n']) >= 3)
            ctx.check(F.is_wellformed(Y, c['n']) and np.array_equal(F.dense(Y), ref), 'poly:value',
                      'poly(%s, shift=%s, power=%s, scale=%s) differs from scale*sum (i+shift)^power' % (c['n'], c['shift'], c['power'], c['scale']), case=row)
            if len(set(c['shift'])) == 1:
                Y2 = teneva.poly(c['n'], shift=float(c['shift'][0]), power=c['power'], scale=float(c['scale']))
                ctx.check(np.array_equal(F.dense(Y2), ref), 'poly:scalar-shift', 'scalar shift differs from per-mode shift', case=row)
            # the shift in every numeric presentation (float / int scalar, list, integer array) and powers whose values
            # leave the 64-bit integer range or are reciprocal: same tensor, values from exact rational arithmetic
            if all(float(x).is_integer() for x in c['shift']):
                from fractions import Fraction
                shi = [int(x) for x in c['shift']]
                for power in (c['power'], 20, 27, -1, -2):
                    if power < 0 and any(m + sh_ == 0 for sh_, k_ in zip(shi, c['n']) for m in range(k_)):
                        continue
                    ref2 = np.zeros(c['n'])
                    for pos in np.ndindex(*c['n']):
                        ref2[pos] = float(Fraction(c['scale']) * sum(Fraction(m + sh_) ** power for m, sh_ in zip(pos, shi)))
                    forms = [('int list', list(shi)), ('int64 array', np.array(shi, dtype=np.int64)), ('int32 array', np.array(shi, dtype=np.int32)), ('float array', np.array(shi, dtype=float))]
                    if len(set(shi)) == 1:
                        forms += [('int scalar', shi[0]), ('float scalar', float(shi[0]))]
                    for fname, sh_arg in forms:
                        ctx.case(key=('poly-form', c['n'], shi, power, c['scale'], fname), nontrivial=True)
                        try:
                            Yf = teneva.poly(c['n'], shift=sh_arg, power=power, scale=float(c['scale']))
                            okf = F.is_wellformed(Yf, c['n']) and np.abs(F.dense(Yf) - ref2).max() <= 1e-12 * (np.abs(ref2).max() + 1e-300)
                            why = 'largest deviation %.3g of %.3g' % (np.abs(F.dense(Yf) - ref2).max(), np.abs(ref2).max()) if F.is_wellformed(Yf, c['n']) else 'malformed'
                        except Exception as ex:
                            okf, why = False, 'raised %s: %s' % (type(ex).__name__, ex)
                        ctx.check(okf, 'poly:forms', 'poly(%s, shift=%s as %s, power=%d, scale=%s): %s' % (c['n'], shi, fname, power, c['scale'], why), case=row)
        elif kind == 'randshape':
            n, r = c['n'], c['r']
            shapes = [tuple(s) for s in e['shapes']]
            for prof in ('scalar', 'list'):
                rr = r if prof == 'scalar' else [1] + [r] * (len(n) - 1) + [1]
                for name in ('rand', 'rand_norm', 'rand_stab', 'rand_custom'):
                    g = AuditGen(int(rng.integers(1 << 30)))
                    if name == 'rand':
                        Y = teneva.rand(n, rr, -2., 5., seed=g)
                    elif name == 'rand_norm':
                        Y = teneva.rand_norm(n, rr, 3., 0.5, seed=g)
                    elif name == 'rand_stab':
                        Y = teneva.rand_stab(n, rr, noise=1e-3, seed=g)
                    else:
                        seen = []

                        def f(size, seen=seen):
                            seen.append(size)
                            return np.arange(1, size + 1, dtype=float)
                        Y = teneva.rand_custom(n, rr, f)
                    ctx.case(key=(name, n, r, prof), nontrivial=r >= 2)
                    ok = F.is_wellformed(Y, n) and [G.shape for G in Y] == shapes
                    msg = 'shapes %s, specification %s' % ([G.shape for G in Y] if isinstance(Y, list) else Y, shapes)
                    # The generator protocol (which Generator method is called, with which arguments) is observed through the
                    # auditing generator.  If it is the expected one the check is exact (every drawn number lands in exactly
                    # one position); another way of drawing is not a violation: the range / distribution clauses are then
                    # judged on the values alone.
                    proto = {'rand': 'uniform', 'rand_norm': 'normal', 'rand_stab': 'normal'}.get(name)
                    bound = proto is not None and len(g.log) > 0 and all(l['fn'] == proto for l in g.log)
                    if ok and name == 'rand':
                        ok = all(G.min() >= -2. and G.max() <= 5. for G in Y)
                        msg = 'entries outside the requested range [-2, 5]'
                        if ok and bound:
                            tot = sum(int(np.prod(l['size'])) for l in g.log)
                            ok = all(l['low'] == -2. and l['high'] == 5. for l in g.log) and tot == e['total']
                            msg = 'uniform draws %s (total %d, specification %d)' % ([(l['fn'], l.get('low'), l.get('high')) for l in g.log][:3], tot, e['total'])
                            drawn = np.sort(np.concatenate([np.ravel(l['out']) for l in g.log]))
                            ok = ok and np.array_equal(drawn, np.sort(np.concatenate([G.ravel() for G in Y])))
                    if ok and name == 'rand_norm':
                        allv = np.concatenate([G.ravel() for G in Y])
                        ok = bool(np.abs(allv - 3.).max() <= 0.5 * 8)              # 8 standard deviations
                        msg = 'entries further than 8 sigma from the requested mean'
                        if ok and bound:
                            tot = sum(int(np.prod(l['size'])) for l in g.log)
                            ok = all(l['loc'] == 3. and l['scale'] == 0.5 for l in g.log) and tot == e['total']
                            drawn = np.sort(np.concatenate([np.ravel(l['out']) for l in g.log]))
                            ok = ok and np.array_equal(drawn, np.sort(allv))
                            msg = 'normal draws wrong'
                    if ok and name == 'rand_stab':
                        ok = np.abs(F.dense(Y) - 1.).max() <= 1e-3 * 50 * len(n) * r
                        # noise = 0 gives exactly the all-ones tensor
                        Y0 = teneva.rand_stab(n, rr, noise=0., seed=1)
                        ok = ok and np.array_equal(F.dense(Y0), np.ones(n))
                        msg = 'rand_stab is not ones + noise'
                        resid_cores = [(G - np.eye(G.shape[0], G.shape[2])[:, None, :]) for G in Y]
                        if ok and bound:
                            # "ones perturbed by the requested noise": every core is the identity pattern plus the drawn numbers,
                            # each drawn number in exactly one position (in particular the diagonal carries noise too)
                            resid = np.sort(np.concatenate([Rc.ravel() for Rc in resid_cores]))
                            drawn = np.sort(np.concatenate([np.ravel(l['out']) for l in g.log]))
                            ok = all(l['scale'] == 1e-3 for l in g.log) and resid.shape == drawn.shape and np.abs(resid - drawn).max() <= 4e-16
                        elif ok:
                            diag = np.concatenate([np.array([Rc[q_, :, q_] for q_ in range(min(Rc.shape[0], Rc.shape[2]))]).ravel() for Rc in resid_cores])
                            allr = np.concatenate([Rc.ravel() for Rc in resid_cores])
                            ok = np.abs(allr).max() <= 8e-3 and (len(diag) < 8 or np.std(diag) >= 1e-4) and (len(allr) < 8 or np.std(allr) >= 1e-4)
                            msg = 'rand_stab: perturbation of the identity pattern is not of the requested size 1e-3'
                    if ok and name == 'rand_custom':
                        ok = seen == [e['total']] and np.array_equal(np.sort(np.concatenate([G.ravel() for G in Y])), np.arange(1, e['total'] + 1, dtype=float))
                        msg = 'rand_custom asked for %s numbers, specification %s, or does not place each exactly once' % (seen, e['total'])
                    ctx.check(ok, name + ':profile', '%s(%s, r=%s): %s' % (name, n, rr, msg), case=row)
    # QTT deltas at quantisation levels far above the exhaustive table (several bytes of position bits): the single non-zero
    # entry of core k is at bit k of the position, little-endian; negative positions count from the end
    for q in (9, 10, 12, 16, 17, 24, 31, 40):
        for rep in range(4):
            pos = int(rng.integers(0, 1 << 62)) % (1 << q)
            for p_arg in (pos, pos - (1 << q)):
                Yv = teneva.vector_delta(q, p_arg, 2.5)
                okv = isinstance(Yv, list) and len(Yv) == q and all(G.shape == (1, 2, 1) for G in Yv)
                if okv:
                    bits = [int(np.argmax(np.abs(G[0, :, 0]))) for G in Yv]
                    okv = all(np.count_nonzero(G) == 1 for G in Yv) and bits == [(pos >> k_) & 1 for k_ in range(q)] \
                        and abs(float(np.prod([G[0, b_, 0] for G, b_ in zip(Yv, bits)])) - 2.5) < 1e-12
                ctx.case(key=('vdelta-big', q, p_arg), nontrivial=True)
                ctx.check(okv, 'vector_delta:value', 'vector_delta(%d, %d, 2.5): the non-zero entry is not at the bits of the position' % (q, p_arg))
            if q <= 31:
                i_, j_ = pos, int(rng.integers(0, 1 << 62)) % (1 << q)
                for ia, ja in ((i_, j_), (i_ - (1 << q), j_), (i_, j_ - (1 << q))):
                    Ym = teneva.matrix_delta(q, ia, ja, -1.5)
                    okm = isinstance(Ym, list) and len(Ym) == q and all(G.shape == (1, 2, 2, 1) for G in Ym)
                    if okm:
                        where_ = [np.argwhere(G[0, :, :, 0] != 0) for G in Ym]
                        okm = all(len(w_) == 1 for w_ in where_) and [tuple(int(x) for x in w_[0]) for w_ in where_] == [((i_ >> k_) & 1, (j_ >> k_) & 1) for k_ in range(q)]
                    ctx.case(key=('mdelta-big', q, ia, ja), nontrivial=True)
                    ctx.check(okm, 'matrix_delta:value', 'matrix_delta(%d, %d, %d, -1.5): the non-zero entries are not at the bits of the position' % (q, ia, ja))
    # integer seeds: the noise of different cores is independent (distinct draws), so that the entries stay of order one for
    # sizeable noise and thousands of modes (a random walk of size noise * sqrt(d), not a power (1 + noise)^d)
    for sd in (0, 1, 7, 42):
        Yn = teneva.rand_stab([3] * 6, 3, noise=1e-2, seed=sd)
        inner = [G - np.eye(G.shape[0], G.shape[2])[:, None, :] for G in Yn[1:-1]]
        same = any(np.array_equal(inner[a_], inner[b_]) for a_ in range(len(inner)) for b_ in range(a_ + 1, len(inner)))
        ctx.case(key=('rand_stab-distinct', sd), nontrivial=True)
        ctx.check(not same, 'rand_stab:noise', 'rand_stab(seed=%d): two cores carry bit-identical noise' % sd)
        Yl = teneva.rand_stab([3] * 4000, 4, noise=2e-3, seed=sd)
        vl = float(teneva.get(Yl, [int(x) for x in np.random.default_rng(sd).integers(0, 3, size=4000)]))
        ctx.check(abs(vl - 1.) < 0.9, 'rand_stab:order-one', 'rand_stab([3]*4000, 4, noise=2e-3, seed=%d): entry %.3g is not of order one' % (sd, vl))
    # stable random tensor stays O(1) in any dimension
    for d in (10, 200, 2000):
        Y = teneva.rand_stab([3] * d, 4, noise=1e-12, seed=3)
        v = teneva.get(Y, [1] * d)
        ctx.case(key=('rand_stab-d', d), nontrivial=True)
        ctx.check(abs(v - 1.) < 1e-6, 'rand_stab:order-one', 'rand_stab entry %.3g in dimension %d' % (v, d))
    # per-bond rank profile (unequal ranks)
    for n, r in (([3, 2, 4, 2], [1, 2, 3, 2, 1]), ([2, 2], [1, 2, 1]), ([2, 3, 2], [1, 1, 3, 1])):
        for name, fn in (('rand', lambda: teneva.rand(n, r, seed=1)), ('rand_norm', lambda: teneva.rand_norm(n, r, seed=1)),
                         ('rand_stab', lambda: teneva.rand_stab(n, r, seed=1)), ('rand_custom', lambda: teneva.rand_custom(n, r, lambda s: np.ones(s)))):
            Y = fn()
            ctx.case(key=(name, n, r), nontrivial=True)
            ctx.check(F.is_wellformed(Y, n) and [1] + [G.shape[2] for G in Y] == r, name + ':per-bond', '%s(%s, %s): ranks %s' % (name, n, r, [G.shape for G in Y]))
