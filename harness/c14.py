"""C14 - samplers draw from exactly the distribution their TT-tensor defines.

Sampler.tla: prefix sums S(prefix) of an integer TT-tensor, conditional
distributions S(prefix.i)/S(prefix), chain identity checked by TLC for every
multi-index of every enumerated tensor (plain and squared weights); Latin
hypercube counts, bounds, distinct rows, block layout of sample_tt.
The samplers are run with an auditing generator that records every probability
vector handed to choice(); each vector is converted to exact fractions (it must
be within rounding of a fraction with denominator <= S(<<>>)) and TLC checks it
against the conditional of the prefix that had actually been drawn.
"""
from fractions import Fraction
import itertools

import numpy as np

import teneva

from . import common, tlc, traces
from . import families as F
from .audit import AuditGen
from .c01 import cores_of


def int_tt(rng, n, r, lo=0, hi=3, sparse=False):
    d = len(n)
    rr = [1] + [r] * (d - 1) + [1]
    Y = [rng.integers(lo, hi + 1, size=(rr[k], n[k], rr[k + 1])).astype(float) for k in range(d)]
    if sparse:
        for G in Y:
            G[rng.random(G.shape) < 0.4] = 0.
    return Y


def cores_json(Y):
    return [dict(r1=int(G.shape[0]), n=int(G.shape[1]), r2=int(G.shape[2]), v=[[[int(round(x)) for x in row] for row in a] for a in G.tolist()]) for G in Y]


def parse_choices(log, d, n):
    """Group the recorded choice() calls into attempts: one vector call (first mode) + (d-1)*size scalar calls."""
    ch = [l for l in log if l['fn'] == 'choice' and l['p'] is not None]
    attempts = []
    pos = 0
    while pos < len(ch):
        first = ch[pos]
        size = int(np.size(first['out']))
        need = (d - 1) * size
        rest = ch[pos + 1: pos + 1 + need]
        if len(rest) != need:
            return None
        attempts.append((first, rest, size))
        pos += 1 + need
    return attempts


def to_fracs(p, dmax, tol):
    num, den, near = [], [], True
    for x in p:
        fr = Fraction(float(x)).limit_denominator(dmax)
        if abs(float(fr) - float(x)) > tol:
            near = False
        num.append(fr.numerator)
        den.append(fr.denominator)
    return num, den, near


def gof_fallback(Y, kind, seed, scale_pow=0, M=6000, int_seed=False):
    """Protocol-independent fallback for executions whose generator calls cannot be bound to the chain of conditionals
    (a different but equally valid way of drawing): empirical frequencies of M draws against the exact distribution,
    with a bound (6.5 standard deviations per cell, all cells) that a correct sampler exceeds with probability < 1e-8;
    the seed is fixed, so the verdict is deterministic."""
    Fd = F.dense(Y)
    W = Fd if kind == 'lin' else Fd * Fd
    P = W / W.sum()
    Yrun = [G * 2.0 ** scale_pow for G in Y] if scale_pow else Y
    fn = teneva.sample if kind == 'lin' else teneva.sample_square
    sd_ = int(seed) if int_seed else np.random.default_rng(seed)
    res = np.asarray(fn(Yrun, M, seed=sd_) if kind == 'lin' else fn(Yrun, M, unique=False, seed=sd_))
    if not (res.ndim == 2 and res.shape == (M, len(Y)) and res.dtype.kind in 'iu' and (res >= 0).all() and (res < np.array(Fd.shape)).all()):
        return 'samples have the wrong shape / type / range'
    cnt = np.zeros(Fd.shape)
    np.add.at(cnt, tuple(res.T), 1)
    z = np.abs(cnt / M - P) / np.sqrt(P * (1 - P) / M + 1e-12)
    if (cnt[P == 0] > 0).any():
        return 'an index of probability zero was drawn'
    if z.max() > 6.5:
        j = np.unravel_index(np.argmax(z), z.shape)
        return 'empirical frequency %.4f of index %s against probability %.4f (%d draws, %.1f standard deviations)' % (cnt[j] / M, list(map(int, j)), P[j], M, z.max())
    return None


def record_tt_sampler(Y, m, kind, seed, unique=False, scale_pow=0, **kw):
    d = len(Y)
    n = [G.shape[1] for G in Y]
    Fd = F.dense(Y)
    W = Fd if kind == 'lin' else Fd * Fd
    total = float(W.sum())
    dmax = int(round(total)) + 1
    g = AuditGen(seed)
    Yrun = [G * 2.0 ** scale_pow for G in Y] if scale_pow else Y
    if kind == 'lin':
        res = teneva.sample(Yrun, m, seed=g, **kw)
    else:
        res = teneva.sample_square(Yrun, m, unique=unique, seed=g, **kw)
    att = parse_choices(g.log, d, n)
    ev = []
    bindable = att is not None
    if bindable:
        for first, rest, size in att:
            tol1 = 1e-11 + (4 * n[0] * 1e-10 / total if kind == 'lin' else 0.)
            num, den, near = to_fracs(first['p'], dmax, tol1)
            ev.append(dict(ev='cond', pre=[], num=num, den=den, near=near))
            pref = [[int(v) + 1] for v in np.ravel(first['out'])]
            for k in range(1, d):
                for s in range(size):
                    c = rest[(k - 1) * size + s]
                    num, den, near = to_fracs(c['p'], dmax, 1e-11)
                    ev.append(dict(ev='cond', pre=list(pref[s]), num=num, den=den, near=near))
                    pref[s].append(int(np.ravel(c['out'])[0]) + 1)
    res = np.asarray(res)
    wf = res.ndim == 2 and res.shape == (m, d) and res.dtype.kind in 'iu'
    ev.append(dict(ev='ret', rows=res.astype(int).tolist() if res.ndim == 2 else [], m=int(m), unique=bool(unique), wf=bool(wf)))
    return dict(kind=kind, cores=cores_json(Y), n=n, ev=ev), bindable, res


def run(ctx):
    ctx.rule = ('cases = sampler executions recorded with the auditing generator (every probability vector checked by TLC) + '
                'LHS / rand / sample_tt outputs; distinct = (tensor, m, seed, flags); non-trivial = d >= 3 or rank >= 2 or restart path')
    ctx.assumptions = ['numpy Generator.choice draws from the vector it is given (trusted)',
                       'vectors must be within 1e-11 of a fraction with denominator <= S(<<>>) (first mode of sample(): plus the documented noise 1e-10)',
                       'TLC side: integer tensors with d <= 4, n <= 4, entries <= 3 (squares <= 9)']
    quick = ctx.tier == 'quick'
    for cfg in (['MC_Sampler_a.cfg'] if quick else ['MC_Sampler_a.cfg', 'MC_Sampler_b.cfg']):
        res = tlc.run('MC_Sampler', cfg=cfg, workers=16, timeout=3000)
        ctx.add_tlc(res, 'chain identity for every multi-index of every tensor: ' + cfg)
    rng = np.random.default_rng(ctx.seed)
    trs, metas = [], []
    nrun = 108 if quick else 540
    shapes = [([2, 3], 1), ([3, 2, 2], 2), ([2, 2, 3, 2], 2), ([4, 3], 3), ([3, 3, 3], 1), ([2, 1, 3], 2), ([3, 1, 1, 2], 2), ([1, 3, 1], 2), ([3, 1, 4], 3)]
    unbound = 0
    for t in range(nrun):
        n, r = shapes[t % len(shapes)]
        kind = 'lin' if t % 2 == 0 else 'sq'
        Y = int_tt(rng, n, r, lo=0 if kind == 'lin' else -2, hi=3 if kind == 'lin' else 2, sparse=(t % 3 == 0))
        if kind == 'lin' and t % 4 == 2:
            # a non-negative tensor whose cores are signed: the element-wise square of a signed tensor
            X = int_tt(rng, n, min(r, 2), lo=-1, hi=2)
            Y = teneva.mul(X, X)
        scale_pow = 0
        if kind == 'sq' and t % 4 == 3:
            # the distribution is invariant under scaling: a huge (power-of-two) norm must not matter
            scale_pow = 200
        if kind == 'lin' and F.dense(Y).sum() <= 0:
            continue
        if kind == 'sq' and not np.any(F.dense(Y)):
            continue
        m = int(rng.integers(1, 9))
        unique = kind == 'sq' and (t % 4 == 1)
        if unique:
            m = min(m, int(np.count_nonzero(F.dense(Y))))
            if m < 1:
                continue
        try:
            tr, bindable, res = record_tt_sampler(Y, m, kind, int(rng.integers(1 << 30)), unique=unique, scale_pow=scale_pow)
        except ValueError as ex:
            if unique and 'Can not generate' in str(ex):
                continue
            ctx.violation('sample_square:raises' if kind == 'sq' else 'sample:raises', 'sampler raised %s: %s (n=%s, scale 2^%d per core)' % (type(ex).__name__, ex, n, scale_pow))
            continue
        unbound += 0 if bindable else 1
        if not bindable:
            msg = gof_fallback(Y, kind, 1 + t, scale_pow=scale_pow)
            ctx.case(key=('gof', n, r, kind, t), nontrivial=True)
            if msg:
                ctx.violation('sample_square:distribution' if kind == 'sq' else 'sample:distribution',
                              'generator calls do not follow the chain protocol and the drawn distribution is wrong: %s (n=%s rank %d)' % (msg, n, r), case={'cores': cores_json(Y), 'kind': kind})
        trs.append(tr)
        metas.append(dict(kind=kind, n=n, r=r, m=m, unique=unique))
    # every way of naming the random stream ("for all seeds"): integer seeds, where the library builds the generator(s)
    # itself and the audit generator sees nothing - the joint distribution of the drawn rows is tested directly
    for t in range(6 if quick else 30):
        d_ = 2 + t % 2
        n_ = [int(x) for x in rng.integers(2, 4, size=d_)]
        r_ = [1] + [int(x) for x in rng.integers(1, 3, size=d_ - 1)] + [1]
        Yg = [np.ones((1, 2, 1)), np.ones((1, 2, 1))] if t == 0 else [rng.integers(0, 3, size=(r_[k], n_[k], r_[k + 1])).astype(float) for k in range(d_)]
        kind = 'lin' if t % 3 != 2 else 'sq'
        if F.dense(Yg).sum() <= 0 or not np.any(F.dense(Yg)):
            continue
        msg = gof_fallback(Yg, kind, t, int_seed=True)
        ctx.case(key=('gof-int-seed', tuple(n_), tuple(r_), kind, t), nontrivial=True)
        if msg:
            ctx.violation('sample_square:distribution' if kind == 'sq' else 'sample:distribution',
                          'integer seed %d: the drawn distribution is wrong: %s (shape %s)' % (t, msg, [G.shape[1] for G in Yg]), case={'cores': cores_json(Yg), 'kind': kind})
    # restart path of the unique squared sampler: peaked tensors, m close to the number of non-negligible entries
    for t in range(6 if quick else 40):
        n = [3, 4, 3]
        Y = None
        for idx in ([0, 1, 2], [2, 3, 0], [1, 0, 1]):
            D = F.delta_tt(n, idx, 30.)
            Y = D if Y is None else F.tt_add(Y, D)
        Y = F.tt_add(Y, [np.ones((1, k, 1)) for k in n])
        m = [6, 12, 20, 9][t % 4]
        tr, bindable, res = record_tt_sampler(Y, m, 'sq', int(rng.integers(1 << 30)), unique=True)
        trs.append(tr)
        metas.append(dict(kind='sq', n=n, r=4, m=m, unique=True, peaked=True))
    # chains with more than 2^53 multi-indices (60 binary modes, 12 modes of size 64): the tensor is the sum of two rank-one
    # deltas a, b that agree on all but the last few modes plus a coupling of rank 2; every drawn row must be a or b
    # (all other entries are exactly zero), and both must occur
    for t, (d_, nk) in enumerate([(60, 2), (58, 2), (12, 64), (70, 2)] if quick else [(60, 2), (58, 2), (12, 64), (70, 2), (64, 3), (30, 16), (120, 2)]):
        a_idx = [int(rng.integers(nk)) for _ in range(d_)]
        b_idx = list(a_idx)
        for k_ in range(d_ - 4, d_):
            b_idx[k_] = (a_idx[k_] + 1) % nk
        Da = F.delta_tt([nk] * d_, a_idx, 1.0)
        Db = F.delta_tt([nk] * d_, b_idx, -1.3)
        Yl = F.tt_add(Da, Db)
        m_ = 40
        res = np.asarray(teneva.sample_square(Yl, m_, unique=False, seed=100 + t))
        okl = res.shape == (m_, d_) and res.dtype.kind in 'iu'
        rows = set(tuple(int(x) for x in row) for row in res) if okl else set()
        ctx.case(key=('long-chain', d_, nk), nontrivial=True)
        ctx.check(okl and rows <= {tuple(a_idx), tuple(b_idx)} and len(rows) == 2, 'sample_square:long-chain',
                  'sample_square on a sum of two deltas with %d modes of size %d: %d distinct rows drawn, %d of them with probability zero'
                  % (d_, nk, len(rows), len(rows - {tuple(a_idx), tuple(b_idx)})))
    # probabilities spanning sixty binary orders of magnitude inside one fibre (entries 4, 1, 2^-60 ...): an index of tiny
    # but non-zero probability keeps exactly that probability in the chain (relative accuracy per entry, noise switched off)
    from .audit import AuditGen
    for t, rk in enumerate((1, 2, 1, 2)):
        nq = [3, 3, 3] if t < 2 else [2, 4, 3]
        def posvec(k_):
            return 2.0 ** rng.choice([2, 0, -60, -30, 1], size=k_)
        parts = [[posvec(k_).reshape(1, k_, 1) for k_ in nq] for _ in range(rk)]
        Yp = parts[0]
        for P_ in parts[1:]:
            Yp = F.tt_add(Yp, P_)
        from fractions import Fraction as Fr
        W = sum(np.multiply.outer(np.multiply.outer(P_[0][0, :, 0], P_[1][0, :, 0]), P_[2][0, :, 0]) for P_ in parts)
        Wf = np.vectorize(lambda x: Fr(float(x)), otypes=[object])(W)
        g_ = AuditGen(11 + t)
        res = np.asarray(teneva.sample(Yp, 60, seed=g_, unsert=0.))
        calls = [l for l in g_.log if l['fn'] == 'choice' and l['p'] is not None]
        okp, why = True, ''
        # bind by content: every recorded vector must be the exact conditional of SOME prefix (first mode: the marginal)
        exact = []
        tot = sum(Wf.ravel())
        exact.append([float(sum(Wf[i].ravel()) / tot) for i in range(nq[0])])
        for i in range(nq[0]):
            si = sum(Wf[i].ravel())
            exact.append([float(sum(Wf[i, j].ravel()) / si) for j in range(nq[1])])
            for j in range(nq[1]):
                sij = sum(Wf[i, j].ravel())
                exact.append([float(Wf[i, j, k] / sij) for k in range(nq[2])])
        for l in calls:
            for row in np.atleast_2d(l['p']):
                row = np.asarray(row, dtype=float)
                hit = any(len(ex) == len(row) and all(abs(a_ - b_) <= 1e-9 * b_ for a_, b_ in zip(row, ex)) for ex in exact)
                if not hit:
                    okp, why = False, 'a conditional vector %s handed to the generator is not the exact conditional of any prefix (relative 1e-9 per entry)' % np.array2string(row, precision=3)
                    break
            if not okp:
                break
        ctx.case(key=('wide-fibre', t, rk), nontrivial=True)
        ctx.check(okp and res.shape == (60, 3), 'sample:wide-range', 'sample() on a tensor whose fibres span 2^-60 .. 4: %s' % (why or 'wrong result shape'))
    ctx.notes['executions_whose_choice_calls_could_not_be_bound'] = unbound
    # Latin hypercube counts for every (mode size, m) in a rectangle (exhaustive: the rule is arithmetic in m and n_k)
    for nk in range(1, 13 if quick else 33):
        for m in range(1, 421 if quick else 1200):
            I = np.asarray(teneva.sample_lhs([nk, (nk % 5) + 1], m, seed=m))
            ok = I.shape == (m, 2) and I.dtype.kind in 'iu'
            if ok:
                for col, size in ((0, nk), ((1), (nk % 5) + 1)):
                    cnt = np.bincount(I[:, col], minlength=size)
                    ok = ok and len(cnt) == size and cnt.min() >= m // size and cnt.max() <= -(-m // size)
            ctx.case(key=('lhs-rect', nk, m), nontrivial=m % nk != 0 or m >= 2 * nk)
            ctx.check(ok, 'sample_lhs:counts', 'sample_lhs(n=[%d, %d], m=%d): an index is used neither floor(m/n) nor ceil(m/n) times' % (nk, (nk % 5) + 1, m), case={'n': nk, 'm': m})
    # Latin hypercube / uniform / structured sets
    for t in range(20 if quick else 200):
        d = int(rng.integers(1, 5))
        n = [int(x) for x in rng.integers(1, 7, size=d)]
        m = int(rng.integers(1, 25))
        I = teneva.sample_lhs(n, m, seed=int(rng.integers(1 << 30)))
        ok = isinstance(I, np.ndarray) and I.shape == (m, d) and I.dtype.kind in 'iu'
        trs.append(dict(kind='lhs', cores=[], n=n, ev=[dict(ev='lhs', cols=[I[:, k].tolist() for k in range(d)] if ok else [[-1]] * d)]))
        metas.append(dict(kind='lhs', n=n, m=m))
        I = teneva.sample_rand(n, m, seed=int(rng.integers(1 << 30)))
        ok = isinstance(I, np.ndarray) and I.shape == (m, d) and I.dtype.kind in 'iu'
        trs.append(dict(kind='rand', cores=[], n=n, ev=[dict(ev='ret', rows=I.tolist() if ok else [], m=m, unique=False, wf=bool(ok))]))
        metas.append(dict(kind='rand', n=n, m=m))
        a = rng.uniform(-3, 3, size=d)
        b = a + rng.uniform(0.1, 4, size=d)
        X = teneva.sample_rand_poi(a, b, m, seed=int(rng.integers(1 << 30)))
        ctx.case(key=('rand_poi', t, ctx.seed), nontrivial=d >= 2)
        ctx.check(X.shape == (m, d) and bool(np.all(X >= a) and np.all(X <= b)), 'sample_rand_poi:box', 'points outside the box or wrong shape')
    for t in range(8 if quick else 60):
        d = int(rng.integers(2, 5))
        n = [int(x) for x in rng.integers(2, 6, size=d)]
        r = int(rng.integers(1, 5))
        I, idx, idxm = teneva.sample_tt(n, r, seed=int(rng.integers(1 << 30)))
        ev = []
        okshape = len(idx) == d + 1 and len(idxm) == d and idx[0] == 0 and idx[-1] == len(I)
        for k in range(d):
            l1 = 1 if k == 0 else r
            l2 = 1 if k == d - 1 else r
            rows = I[idx[k]:idx[k + 1]].astype(int).tolist() if okshape else []
            ev.append(dict(ev='block', k=k + 1, rows=rows, l1=l1, l2=l2))
            ctx.check(okshape and int(idxm[k]) == l2, 'sample_tt:idx_many', 'idx_many[%d] = %s, right-block length %d' % (k, idxm[k] if okshape else None, l2))
        trs.append(dict(kind='tt', cores=[], n=n, ev=ev))
        metas.append(dict(kind='tt', n=n, r=r))
    verdicts, st, gen, runs = traces.validate('Trace_Sampler', trs, cfg='Trace_Sampler.cfg', diag_cfg='Trace_Sampler_diag.cfg')
    for r_ in runs:
        ctx.add_tlc(r_, 'trace validation (Trace_Sampler), %d traces' % len(trs))
    for tr, v, mt in zip(trs, verdicts, metas):
        nt = (len(mt['n']) >= 3) or mt.get('r', 1) >= 2 or mt.get('peaked', False)
        ctx.case(key=repr(mt) + repr(tr['ev'][-1])[:200], nontrivial=nt,
                 sample={'sampler': mt, 'first_events': tr['ev'][:3]} if mt['kind'] in ('lin', 'sq') else None)
        if v['ok']:
            ctx.trace_ok()
        else:
            name = {'lin': 'sample', 'sq': 'sample_square', 'lhs': 'sample_lhs', 'rand': 'sample_rand', 'tt': 'sample_tt'}[mt['kind']]
            ctx.violation(name + ':trace', '%s: recorded execution is not a behaviour of the sampler specification (%s); %s' % (name, v['why'], mt),
                          case={'meta': mt, 'trace': tr})
    if unbound > len(trs) // 4:
        raise tlc.TlcError('%d sampler executions could not be bound to the specification (choice() call pattern changed)' % unbound)
    # protocol-independent fallback: goodness of fit on one tensor (conservative threshold)
    Y = int_tt(np.random.default_rng(5), [3, 2, 3], 2, 0, 3)
    Fd = F.dense(Y)
    m = 20000 if quick else 200000
    for kind in ('lin', 'sq'):
        W = Fd if kind == 'lin' else Fd * Fd
        I = teneva.sample(Y, m, seed=11) if kind == 'lin' else teneva.sample_square(Y, m, unique=False, seed=11)
        cnt = np.zeros(Fd.shape)
        np.add.at(cnt, tuple(np.asarray(I).astype(int).T), 1)
        exp = W / W.sum() * m
        mask = exp > 0
        chi2 = float(((cnt[mask] - exp[mask]) ** 2 / exp[mask]).sum())
        dof = int(mask.sum()) - 1
        ctx.case(key=('chi2', kind), nontrivial=True)
        ctx.check(cnt[~mask].sum() == 0 and chi2 < dof + 8 * np.sqrt(2 * dof) + 30, ('sample' if kind == 'lin' else 'sample_square') + ':chi2',
                  'goodness of fit: chi2 = %.1f with %d dof; draws at zero-weight entries: %d' % (chi2, dof, int(cnt[~mask].sum())))


def selftest(ctx):
    from . import selftest as ST
    return ST.sampler(ctx)
