"""C11 - degenerate but valid inputs yield well-formed finite tensors, never NaN.

Degenerate.tla enumerates the full product of degenerate families x routines
x flags with the outcome class of each combination (well-formed tensor / finite
scalar / sentinel -1); the harness must execute every emitted combination
(several members per family).  Rounding.tla with zero energies admitted
(EMin = 0) gives, in exact arithmetic, the expected ranks of rounding /
TT-SVD / matrix factorisations on tensors with exactly-zero and rank-deficient
unfoldings, including the zero tensor (rank floor 1); every emitted case is
replayed in all mode / flag combinations.
"""
import itertools

import numpy as np

import teneva

from . import families as F
from . import rounding as RD
from . import tlc


def members(fam, rng):
    """a few TT-tensors of each degenerate family: (tensor, shape)"""
    out = []
    for n, r in (([2, 4, 2], 2), ([4, 2], 3), ([2, 2, 2, 4], 2)):
        d = len(n)
        Y = teneva.rand(n, r, seed=int(rng.integers(1 << 30)))
        if fam == 'zero':
            Y = [np.zeros_like(G) for G in Y]
        elif fam == 'mulzero':
            Y = teneva.mul(Y, 0.)
        elif fam == 'deficient':
            for G in Y:
                if G.shape[2] > 1:
                    G[:, :, -1] = G[:, :, 0]
                if G.shape[0] > 1:
                    G[-1, :, :] = 0.
        elif fam == 'overrank':
            rr = [1] + [7] * (d - 1) + [1]
            Y = [rng.normal(size=(rr[k], n[k], rr[k + 1])) for k in range(d)]
        elif fam == 'rank1':
            Y = teneva.rand(n, 1, seed=int(rng.integers(1 << 30)))
        elif fam == 'two':
            n = n[:2] if n[:2] != [2, 2] else [4, 2]
            Y = teneva.rand(n, r, seed=int(rng.integers(1 << 30)))
        elif fam == 'mode1':
            n = list(n)
            n[1 if d > 2 else 0] = 1
            Y = teneva.rand(n, r, seed=int(rng.integers(1 << 30)))
        elif fam == 'const':
            Y = teneva.const(n, 3.5)
        out.append((Y, [G.shape[1] for G in Y]))
    return out


def finite_scalar(x):
    try:
        return bool(np.isfinite(float(x)))
    except Exception:
        return False


def run_tensor_case(ctx, c, outcome, rng):
    fam, rt, fl = c['fam'], c['routine'], c['flags']
    for Y, n in members(fam, rng):
        d = len(n)
        what = '%s%s on family "%s" (n=%s, ranks %s)' % (rt, tuple(fl), fam, n, [G.shape[2] for G in Y[:-1]])
        sig = 'degenerate:%s' % rt
        pow2 = all(k in (1, 2, 4, 8) and k >= 2 for k in n)
        try:
            res = None
            exp_n = n
            if rt == 'truncate':
                res = teneva.truncate(Y, 1e-6, 3, is_eigh=fl[0], use_stab=fl[1])
            elif rt == 'orthogonalize':
                k = {'first': 0, 'mid': d // 2, 'last': d - 1}[fl[0]]
                res = teneva.orthogonalize(Y, k, use_stab=fl[1])
                if fl[1]:
                    res, p = res
                    if not ctx.check(isinstance(p, (int, np.integer)), sig, what + ': exponent is not an integer', case=c):
                        continue
            elif rt == 'orth_step':
                Yc = [G.copy() for G in Y]
                i = 0 if fl[0] == 'left' else d - 1
                res = (teneva.orthogonalize_left if fl[0] == 'left' else teneva.orthogonalize_right)(Yc, i, inplace=fl[1])
            elif rt == 'svd':
                res = teneva.svd(F.dense(Y), 1e-8, fl[0])
            elif rt == 'svd_matrix':
                A = F.dense(Y).reshape(-1)
                q = int(np.floor(np.log2(np.sqrt(A.size))))
                q = max(q, 1)
                M = np.resize(A, (2 ** q, 2 ** q))
                res = teneva.svd_matrix(M, 1e-8, fl[0])
                exp_n = [4] * q
            elif rt == 'tt_to_qtt':
                if not pow2:
                    continue
                res = teneva.tt_to_qtt(Y, 1e-10, fl[0])
                exp_n = [2] * int(sum(np.log2(n)))
            elif rt == 'qtt_roundtrip':
                if not pow2 or len(set(n)) != 1:
                    continue
                res = teneva.qtt_to_tt(teneva.tt_to_qtt(Y), int(np.log2(n[0])))
            elif rt == 'add_many':
                res = teneva.add_many([Y, Y, 0., teneva.mul(Y, -2.), Y], e=1e-8, r=4, trunc_freq=fl[0])
            elif rt == 'add':
                res = teneva.add(Y, teneva.mul(Y, -1.))
            elif rt == 'sub_self':
                res = teneva.truncate(teneva.sub(Y, Y), 1e-8)
            elif rt == 'mul':
                res = teneva.mul(Y, Y)
            elif rt in ('func_int', 'func_gets', 'func_int_sin'):
                if min(n) < 2 and rt != 'func_gets':      # interpolation needs two nodes; evaluation on the grid does not
                    continue
                res = teneva.func_int(Y) if rt == 'func_int' else teneva.func_gets(Y) if rt == 'func_gets' else teneva.func_int(Y, kind='sin')
            elif rt == 'scalars':
                vals = dict(sum=teneva.sum(Y), mean=teneva.mean(Y), erank=teneva.erank(Y), dot=teneva.mul_scalar(Y, Y))
                if fl[0]:
                    v, p = teneva.norm(Y, use_stab=True)
                    vals['norm_mantissa'] = v
                    vals['norm_exponent'] = p
                    v2, p2 = teneva.mul_scalar(Y, Y, use_stab=True)
                    vals['dot_mantissa'] = v2
                else:
                    vals['norm'] = teneva.norm(Y)
                    # numerically-zero tensors through cancellation
                    vals['norm_cancel'] = teneva.norm(teneva.sub(Y, teneva.orthogonalize(Y, 0)))
                    vals['norm_self'] = teneva.norm(teneva.sub(Y, Y))
                ctx.case(key=(fam, rt, tuple(fl), tuple(n)), nontrivial=True)
                bad = [k for k, v in vals.items() if not finite_scalar(v)]
                ctx.check(not bad, sig, what + ': non-finite scalars %s' % {k: vals[k] for k in bad}, case=c)
                continue
            elif rt == 'accuracy':
                a1 = teneva.accuracy(teneva.rand(n, 2, seed=1), Y)
                a2 = teneva.accuracy(Y, teneva.rand(n, 2, seed=1))
                a3 = teneva.accuracy_on_data(Y, teneva.grid_flat(n), np.zeros(int(np.prod(n)))) if fam in ('zero', 'mulzero') else 0.
                ctx.case(key=(fam, rt, tuple(n)), nontrivial=True)
                if outcome == 'sentinel':
                    ctx.check(a1 == -1 and finite_scalar(a2), sig, what + ': undefined relative accuracy reported as %r (sentinel -1 expected); reverse %r' % (a1, a2), case=c)
                else:
                    ctx.check(finite_scalar(a1) and finite_scalar(a2) and not np.isnan(a1), sig, what + ': accuracy %r / %r' % (a1, a2), case=c)
                continue
        except Exception as ex:
            ctx.case(key=(fam, rt, tuple(fl), tuple(n)), nontrivial=True)
            ctx.violation(sig, what + ' raised %s: %s' % (type(ex).__name__, str(ex)[:200]), case=c)
            continue
        ctx.case(key=(fam, rt, tuple(fl), tuple(n)), nontrivial=True, sample={'family': fam, 'routine': rt, 'flags': fl, 'n': n} if fam == 'zero' and rt == 'truncate' else None)
        ok = F.is_wellformed(res, exp_n)
        ctx.check(ok, sig, what + ': result is not a well-formed finite TT-tensor (%s)' % ([getattr(G, 'shape', None) for G in res] if isinstance(res, list) else type(res)), case=c)
        if ok and rt in ('truncate', 'orthogonalize', 'orth_step', 'qtt_roundtrip') and fam not in ('overrank',):
            ref = F.dense(Y)
            got = F.dense(res) * (2.0 ** p if rt == 'orthogonalize' and fl[1] else 1.)
            ctx.check(np.abs(got - ref).max() <= 1e-5 * (1e-300 + np.abs(ref).max()) + 1e-12, sig, what + ': the denoted tensor changed', case=c)


def data_sets(fam, rng, rt=None):
    out = []
    for n in ([3, 2, 3], [4, 3]):
        if fam == 'two':
            n = n[:2]
        if fam == 'mode1':
            n = list(n)
            n[-1] = 1
        I = teneva.grid_flat(n)
        T = teneva.rand(n, 2, seed=int(rng.integers(1 << 30)))
        y = teneva.get_many(T, I)
        if fam == 'zero':
            y = np.zeros(len(I))
        elif fam == 'const':
            y = np.full(len(I), 2.5)
        elif fam == 'repeat':
            I = np.vstack([I, I[:3], I[:3], I[-1:]])
            y = np.concatenate([y, y[:3], y[:3], y[-1:]])
        elif fam == 'rank1':
            y = teneva.get_many(teneva.rand(n, 1, seed=3), I)
        out.append((n, I, y))
    if fam == 'repeat':
        # few distinct multi-indices, each listed several times: most index pairs never occur together
        n = [3, 3, 3]
        I = np.array([[j, j, j] for j in range(3)] * 3 + [[0, 0, 0]])
        y = np.array([1., 2., 4.] * 3 + [1.])
        out.append((n, I, y))
        n = [2, 2]
        I = np.array([[0, 0], [1, 1], [0, 0], [1, 1]])
        out.append((n, I, np.array([1., 3., 1., 3.])))
        if rt == 'anova':
            # index values with gaps (a value of a later mode is never sampled: the routine works on the observed values, the
            # result has one slice per observed value) and index pairs that never occur together
            for I, y in ((np.array([[0, 0, 0], [0, 0, 0], [0, 3, 1], [0, 3, 1], [1, 2, 0], [1, 2, 0], [1, 3, 1], [2, 2, 1], [2, 2, 1], [2, 3, 0]]),
                          np.array([1., 1., 2., 2., 1., 1., 2., 3., 3., 1.])),
                         (np.array([[0, 5, 2], [3, 0, 2], [3, 5, 7], [0, 2, 7], [0, 5, 2], [1, 2, 9]]), np.array([1., -2., 0., 4., 1., 0.5])),
                         (np.array([[4, 0], [0, 6], [4, 6], [2, 3], [2, 3]]), np.array([2., 2., 2., 2., 2.]))):
                out.append(([len(np.unique(I[:, k])) for k in range(I.shape[1])], I, y))
    return out


def run_data_case(ctx, c, rng, known):
    fam, rt, fl = c['fam'], c['routine'], c['flags']
    for n, I, y in data_sets(fam, rng, rt):
        d = len(n)
        what = '%s%s on "%s" data (n=%s, %d samples)' % (rt, tuple(fl), fam, n, len(y))
        sig = 'degenerate:%s' % rt
        exp_n = n
        try:
            if rt == 'cross':
                tab = np.zeros(n)
                tab[tuple(I.T)] = y

                def f(J):
                    return tab[tuple(np.asarray(J).T)]
                res = teneva.cross(f, teneva.rand(n, 1 if fam == 'rank1' else 2, seed=2), nswp=2, dr_min=fl[1], dr_max=fl[1], cache={} if fl[0] else None, info={})
            elif rt == 'als':
                w = np.ones(len(y)) if fl[0] else None
                res = teneva.als(I, y, teneva.rand(n, 2, seed=2), nswp=2, lamb=1e-6 if fl[1] == 'small' else 1., w=w, info={})
            elif rt == 'als_adaptive':
                if d < 3:
                    continue
                Y0 = teneva.rand(n, 1, seed=2) if fl[0] == 'rank1' else teneva.rand(n, 3 + max(n), seed=2)
                res = teneva.als(I, y, Y0, nswp=2, r=3 if fl[0] == 'rank1' else 3 + max(n), info={})
            elif rt == 'anova':
                if any(k < 1 for k in n):
                    continue
                res = teneva.anova(I, y, r=3, order=fl[0], noise=1e-10, seed=1)
            elif rt == 'anova_func':
                X = teneva.ind_to_poi(I, -1., 1., n, 'uni') if min(n) > 1 else np.hstack([teneva.ind_to_poi(I[:, :-1], -1., 1., n[:-1], 'uni'), np.zeros((len(I), 1))])
                if fl[0] == 0:
                    res = teneva.anova_func(X, y, 3)
                    exp_n = [3] * d
                else:
                    # more basis functions than distinct abscissae in a mode (the per-mode least-squares problems are
                    # rank deficient), plain least squares (lamb = 0) or the default regularisation; also one point repeated
                    kw_ = dict(lamb=0.) if fl[0] == 1 else {}
                    res = teneva.anova_func(X, y, 6, -1., 1., **kw_)
                    exp_n = [6] * d
                    Xr = np.repeat(X[:1], 7, axis=0)
                    res2 = teneva.anova_func(Xr, np.arange(7.) if fl[0] == 1 else np.full(7, 3.), 4, -1., 1., e=None, **kw_)
                    if not F.is_wellformed(res2, [4] * d):
                        res = res2
            elif rt == 'als_func':
                X = np.random.default_rng(1).uniform(-1, 1, size=(len(y), d))
                res = teneva.als_func(X, y, teneva.rand([3] * d, 2, seed=2), nswp=2, info={})
                exp_n = [3] * d
        except Exception as ex:
            ctx.case(key=(fam, rt, tuple(fl), tuple(n)), nontrivial=True)
            ctx.violation(sig, what + ' raised %s: %s' % (type(ex).__name__, str(ex)[:200]), case=c)
            continue
        ctx.case(key=(fam, rt, tuple(fl), tuple(n)), nontrivial=True)
        ctx.check(F.is_wellformed(res, exp_n), sig, what + ': result is not a well-formed finite TT-tensor (%s)' % ([getattr(G, 'shape', None) for G in res] if isinstance(res, list) else type(res)), case=c)


def run(ctx):
    ctx.rule = ('cases = (degenerate family, routine, flags) emitted by TLC x members of the family + degenerate rounding cases (zero energies) '
                'in every mode / flag combination; every emitted combination must be executed; non-trivial = all (each is a degenerate input)')
    ctx.assumptions = ['family members are built by the harness (3 tensors / 2 data sets per family)',
                       'rounding part: exact ranks from Rounding.tla with EMin = 0 (ties -> inequalities)']
    quick = ctx.tier == 'quick'
    rng = np.random.default_rng(ctx.seed)
    res = tlc.run('Degenerate', workers=4, timeout=900)
    ctx.add_tlc(res, 'Degenerate: catalogue family x routine x flags with outcome classes')
    n_cases = 0
    for row in res.json:
        c = row['case']
        n_cases += 1
        if c['data']:
            run_data_case(ctx, c, rng, None)
        else:
            run_tensor_case(ctx, c, row['outcome'], rng)
    if n_cases < 300:
        raise tlc.TlcError('catalogue incomplete: %d cases' % n_cases)
    # the documented stabilisation flag of the rank-adaptive ALS (every input)
    I = teneva.grid_flat([3, 3, 3])
    y = teneva.get_many(teneva.rand([3, 3, 3], 2, seed=1), I)
    try:
        Z = teneva.als(I, y, teneva.rand([3, 3, 3], 1, seed=2), nswp=1, r=2, use_stab=True, info={})
        ctx.check(F.is_wellformed(Z, [3, 3, 3]), 'als:adaptive+use_stab', 'als(r=2, use_stab=True) result malformed')
    except Exception as ex:
        ctx.violation('als:adaptive+use_stab', 'als(r=2, use_stab=True) raised %s: %s' % (type(ex).__name__, ex))
    ctx.case(key='als-adaptive-stab', nontrivial=True)
    # an undefined relative accuracy is the documented sentinel -1, never NaN: validation data given only in part
    Yv = teneva.rand([3, 3, 3], 2, seed=3)
    Iv = teneva.sample_lhs([3, 3, 3], 7, seed=1)
    yv = teneva.get_many(Yv, Iv)
    for nameI, Ia in (('I', Iv), ('none', None)):
        for namey, ya in (('y', yv), ('none', None)):
            if Ia is not None and ya is not None:
                continue
            v = teneva.accuracy_on_data(Yv, Ia, ya)
            ctx.case(key=('aod-sentinel', nameI, namey), nontrivial=True)
            ctx.check(isinstance(v, (int, float, np.floating, np.integer)) and v == -1, 'accuracy_on_data:sentinel', 'accuracy_on_data(Y, %s, %s) = %r, documented sentinel -1' % (nameI, namey, v))
            for rt in ('cross', 'als'):
                info = {}
                try:
                    if rt == 'cross':
                        teneva.cross(lambda J: teneva.get_many(Yv, J), teneva.rand([3, 3, 3], 2, seed=4), nswp=1, info=info, I_vld=Ia, y_vld=ya)
                    else:
                        It = teneva.grid_flat([3, 3, 3])
                        teneva.als(It, teneva.get_many(Yv, It), teneva.rand([3, 3, 3], 2, seed=4), nswp=1, info=info, I_vld=Ia, y_vld=ya)
                except Exception as ex:
                    ctx.violation('%s:partial-validation' % rt, '%s with %s / %s as validation data raised %s: %s' % (rt, nameI, namey, type(ex).__name__, ex))
                    continue
                ctx.check(info.get('e_vld') == -1, '%s:e_vld-sentinel' % rt, '%s with validation data (%s, %s): info["e_vld"] = %r, documented sentinel -1' % (rt, nameI, namey, info.get('e_vld')))
    # ---- exact ranks on exactly-zero / rank-deficient spectra
    for cfg in ('Rounding_degen.cfg', 'Rounding_degen2.cfg'):
        cases = RD.emit(ctx, cfg, 'Rounding with zero energies (zero tensor, zero / deficient unfoldings): ' + cfg, workers=16)
        order = rng.permutation(len(cases))
        for j in order[:(2500 if quick else len(cases))]:
            case = cases[j]
            zero_groups = any(e_['en'] == 0 for e_ in case['ent'])
            if case['N'] == 0:
                # the zero tensor: any accuracy; rank floor 1, finite cores
                Y, n = F.family_member(case['d'], case['npre'], case['ent'])
                for eig, stab in itertools.product((True, False), (True, False)):
                    ctx.case(key=('zero', case['d'], len(case['ent']), eig, stab, case['cap'], case['dir']), nontrivial=True)
                    try:
                        Z = teneva.truncate(Y, 0.3, case['cap'] if case['cap'] != 99 else 1e12, is_eigh=eig, use_stab=stab)
                        ok = F.is_wellformed(Z, n) and all(G.shape[2] == 1 for G in Z[:-1]) and not np.any(F.dense(Z))
                    except Exception as ex:
                        ok = False
                    ctx.check(ok, 'degenerate:truncate-zero', 'truncate(zero tensor, is_eigh=%s, use_stab=%s) is not the well-formed rank-1 zero tensor' % (eig, stab), case=case)
                Zs = teneva.svd(F.dense(Y), 0.1, case['cap'] if case['cap'] != 99 else 1e12)
                ctx.check(F.is_wellformed(Zs, n) and all(G.shape[2] == 1 for G in Zs[:-1]), 'degenerate:svd-zero', 'svd(zero array) is not a well-formed rank-1 tensor', case=case)
                continue
            ctx.case(key=('degen', case['ent'], case['T'], case['cap'], case['dir']), nontrivial=zero_groups)
            if case['dir'] == 'rtl':
                msg = RD.replay_truncate(ctx, case, rng, bool(rng.integers(2)), bool(rng.integers(2)))
                name = 'truncate'
            elif case['d'] == 2:
                fn = ['skeleton', 'svd'][int(rng.integers(2))] if case['dir'] == 'ltr' else 'skeleton'
                msg = RD.replay_matrix(ctx, case, rng, fn, give_to=['l', 'm', 'r'][int(rng.integers(3))])
                name = 'matrix_' + fn
            else:
                msg = RD.replay_svd(ctx, case, rng)
                name = 'svd'
            if msg:
                ctx.violation('degenerate:' + name, msg, case=case)
