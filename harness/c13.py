"""C13 - TT-ANOVA cores encode exactly the additive model estimated from the data.

Anova.tla computes, in exact rationals, f0, the first-order terms, the pair
terms (0 for unobserved pairs), the observed domain and the order-1 / order-2
model values at every multi-index of the observed domain, for every canonical
tiny data set (full grids, sparse subsets, duplicates, unobserved index
values); it model-checks the order-1 core pattern on integer placeholders.
Replay: teneva.anova (noise = 0) dense export, ANOVA.__call__, shapes, ranks.
The functional variant is checked against an independent ridge / Chebyshev
reference computed from a pristine copy of the data.
"""
from fractions import Fraction

import numpy as np

import teneva

from . import families as F
from . import tlc


def tt_ranks_of(T, tol=1e-9):
    rk = []
    n = T.shape
    for k in range(1, T.ndim):
        s = np.linalg.svd(T.reshape(int(np.prod(n[:k])), -1), compute_uv=False)
        rk.append(int(np.sum(s > tol * max(1., s[0]))))
    return rk


def fr(p):
    return float(Fraction(p[0], p[1]))


def run(ctx):
    ctx.rule = ('cases = canonical data sets emitted by TLC x (order, rank, noise); distinct = (samples, order, r); '
                'non-trivial = duplicates, unobserved pairs or unobserved index values are present')
    ctx.assumptions = ['order 2 is compared for equality only when r >= the TT-ranks of the exact model tensor (computed from TLC values)',
                       'noise > 0: deviation bounded by 1e3 * noise * (1 + max|y|) * d']
    quick = ctx.tier == 'quick'
    rng = np.random.default_rng(ctx.seed)
    for cfg in (['Anova_q.cfg', 'Anova_q3.cfg'] if quick else ['Anova_t.cfg', 'Anova_t3.cfg']):
        res = tlc.run('Anova', cfg=cfg, workers=16, timeout=3000)
        ctx.add_tlc(res, 'Anova: exact additive model of every canonical data set: ' + cfg)
        rows = res.json
        if quick and len(rows) > 2500:
            rows = [rows[j] for j in rng.permutation(len(rows))[:2500]]
        for row in rows:
            smp = row['smp']
            d = row['d']
            if ctx.replay_filter and ctx.replay_filter['case'].get('smp') != smp:
                continue
            I = np.array([s['i'] for s in smp], dtype=int)
            y = np.array([float(s['y']) for s in smp])
            perm = rng.permutation(len(y))
            I, y = I[perm], y[perm]
            shp = row['shape']
            v1 = np.array([fr(p) for p in row['v1']]).reshape(shp)
            v2 = np.array([fr(p) for p in row['v2']]).reshape(shp)
            dom = row['dom']
            case = {'smp': smp}
            pairs_unobserved = any(True for k1 in range(d) for k2 in range(k1 + 1, d) for a in dom[k1] for b in dom[k2]
                                   if not any(s['i'][k1] == a and s['i'][k2] == b for s in smp))
            nontriv = pairs_unobserved or len(set(map(lambda s: tuple(s['i']), smp))) < len(smp)
            # ---- order 1
            for r in (2, 3):
                Y = teneva.anova(I, y, r=r, order=1, noise=0., seed=int(rng.integers(1 << 30)))
                ctx.case(key=('o1', smp, r), nontrivial=nontriv,
                         sample={'samples': smp, 'f0': row['f0'], 'f1': row['f1'], 'order1_values': row['v1']} if r == 2 and len(smp) == 3 else None)
                ok = F.is_wellformed(Y, shp)
                if not ctx.check(ok, 'anova:wellformed', 'order-1 ANOVA tensor malformed / wrong mode sizes (observed domain %s): %s' % (shp, [getattr(G, 'shape', None) for G in Y]), case=case):
                    continue
                if d >= 2:
                    ctx.check(all(G.shape[2] == r for G in Y[:-1]), 'anova:ranks1', 'order-1 ranks %s, requested %d' % ([G.shape[2] for G in Y[:-1]], r), case=case)
                ctx.check(np.abs(F.dense(Y) - v1).max() <= 1e-10 * (1 + np.abs(v1).max()), 'anova:order1',
                          'order-1 tensor differs from f0 + sum f1 by %.2e' % np.abs(F.dense(Y) - v1).max(), case=case)
            Yn = teneva.anova(I, y, r=2, order=1, noise=1e-6, seed=3)
            ctx.check(np.abs(F.dense(Yn) - v1).max() <= 1e-3 * (1 + np.abs(y).max()) * d, 'anova:noise', 'noise 1e-6 changes the tensor by more than the requested noise', case=case)
            # ANOVA object evaluated at original index values
            an = teneva.ANOVA(I, y, order=2, seed=1)
            grid = np.array([[dom[k][int(p)] for k, p in enumerate(pos)] for pos in np.ndindex(*shp)])
            ctx.check(np.abs(an(grid) - v2.reshape(-1)).max() <= 1e-10 * (1 + np.abs(v2).max()), 'ANOVA:call2', 'ANOVA(order=2)(I) differs from the exact order-2 model', case=case)
            an1 = teneva.ANOVA(I, y, order=1, seed=1)
            ctx.check(np.abs(an1(grid) - v1.reshape(-1)).max() <= 1e-10 * (1 + np.abs(v1).max()) and abs(an1.f0 - fr(row['f0'])) <= 1e-12 * (1 + abs(fr(row['f0']))),
                      'ANOVA:call1', 'ANOVA(order=1)(I) / f0 differs from the exact order-1 model', case=case)
            # ---- the model lives on the OBSERVED domain: index labels may be re-labelled by any increasing map and stored in any
            #      integer type that holds them (uint8 / int8 / int16 / int32): same tensors
            mul_, add_ = [(1, 0), (7, 3), (11, 40), (5, 100), (2, -1)][int(rng.integers(5))]
            dt = [np.uint8, np.int8, np.int16, np.int32, np.uint16][int(rng.integers(5))]
            Ir = I * mul_ + add_
            if add_ == -1:
                # labels at the very top of the type's range (max, max-2, ...): any arithmetic on labels would wrap
                # (32-bit types: labels around 10^6 - a table indexed by label would still be allocatable, so that a
                #  wrong implementation shows as a wrong answer and not as an exhausted machine)
                Ir = min(int(np.iinfo(dt).max), 1000003) - 2 * (I.max() - I)
            if Ir.max() <= np.iinfo(dt).max and Ir.min() >= 0:
                Ir = Ir.astype(dt)
                for order_, vref in ((1, v1), (2, v2)):
                    try:
                        Yr = teneva.anova(Ir, y, r=6, order=order_, noise=0., seed=2)
                    except Exception as ex:
                        ctx.violation('anova:labels', 'ANOVA order %d on index labels %d*i+%d stored as %s raised %s: %s' % (order_, mul_, add_, np.dtype(dt), type(ex).__name__, ex), case=case)
                        continue
                    ctx.case(key=('labels', smp, order_, mul_, add_, str(np.dtype(dt))), nontrivial=True)
                    okr = F.is_wellformed(Yr, shp) and (order_ == 2 and max(tt_ranks_of(v2) + [1]) > 6 or np.abs(F.dense(Yr) - vref).max() <= 1e-7 * (1 + np.abs(vref).max()))
                    ctx.check(okr, 'anova:labels', 'ANOVA order %d changes when the index labels are %d*i+%d stored as %s (deviation %.3g)'
                              % (order_, mul_, add_, np.dtype(dt), np.abs(F.dense(Yr) - vref).max() if F.is_wellformed(Yr, shp) else -1), case=case)
            # ---- the model is linear in the sample values: y times an exact power of two gives the tensor times that power
            for sp in (-30, 40):
                Ys_ = teneva.anova(I, y * 2.0 ** sp, r=3, order=1, noise=0., seed=5)
                ctx.case(key=('scale', smp, sp), nontrivial=True)
                ctx.check(F.is_wellformed(Ys_, shp) and np.abs(F.dense(Ys_) / 2.0 ** sp - v1).max() <= 1e-10 * (1 + np.abs(v1).max()), 'anova:scale',
                          'order-1 ANOVA of the samples times 2^%d is not 2^%d times the order-1 tensor' % (sp, sp), case=case)
            # ---- "up to the requested noise": a requested noise of exactly zero (absolute or relative) gives the exact model,
            #      whatever the other noise argument says
            a0 = teneva.ANOVA(I, y, order=1, seed=1)
            for kwn in (dict(noise=0.), dict(rel_noise=0), dict(rel_noise=0., noise=1e-2), dict(noise=0., rel_noise=None)):
                Y0n = a0.cores(r=3, **kwn)
                ctx.case(key=('zero-noise', smp, repr(kwn)), nontrivial=True)
                ctx.check(F.is_wellformed(Y0n, shp) and np.abs(F.dense(Y0n) - v1).max() <= 1e-13 * (1 + np.abs(v1).max()), 'anova:noise',
                          'ANOVA.cores(r=3, %s) deviates from f0 + sum f1 by %.3g although zero noise was requested' % (kwn, np.abs(F.dense(Y0n) - v1).max() if F.is_wellformed(Y0n, shp) else -1), case=case)
            # ---- one ANOVA object used repeatedly: every cores() request is answered from the fitted model alone
            if d >= 3:
                first = F.dense(teneva.ANOVA(I, y, order=2, seed=1).cores(r=6, noise=0.))       # a fresh object's answer
                ao = teneva.ANOVA(I, y, order=2, seed=1)
                # other methods of the object in between: drawing samples from the model, evaluating it
                import io, contextlib
                with contextlib.redirect_stdout(io.StringIO()):
                    for _ in range(2):
                        try:
                            ao.sample()
                            ao.sample(with_square=True)
                            ao(ao.sample())
                        except Exception:
                            pass
                for kw_ in ([dict(r=6, only_near=True), dict(r=2)] if len(smp) % 2 else [dict(r=2), dict(r=6), dict(r=6, only_near=True), dict(r=3)]):
                    try:
                        ao.cores(noise=0., **kw_)        # (only_near itself is outside the property: on the pinned tree it
                    except Exception:                      #  mis-numbers the pairs for d >= 3 and may raise; see DESIGN 12.3)
                        pass
                again = F.dense(ao.cores(r=6, noise=0.))
                ctx.case(key=('object-history', smp), nontrivial=True)
                ctx.check(np.abs(first - again).max() <= 1e-9 * (1 + np.abs(first).max()), 'ANOVA:history',
                          'ANOVA.cores(r=6) after other cores() requests (only_near=True, other ranks) on the same object differs from a fresh object\'s answer by %.3g' % np.abs(first - again).max(), case=case)
            # ---- order 2
            need = max(tt_ranks_of(v2) + [1])
            for r in (2, 4, 6):
                try:
                    Y2 = teneva.anova(I, y, r=r, order=2, noise=0., seed=2)
                except Exception as ex:
                    ctx.violation('anova:order2-raises', 'order-2 ANOVA raised %s: %s' % (type(ex).__name__, ex), case=case)
                    continue
                ctx.case(key=('o2', smp, r), nontrivial=nontriv)
                if not ctx.check(F.is_wellformed(Y2, shp), 'anova:wellformed2', 'order-2 ANOVA tensor malformed', case=case):
                    continue
                ctx.check(max([G.shape[2] for G in Y2[:-1]] + [1]) <= r, 'anova:ranks2', 'order-2 ranks %s exceed r=%d' % ([G.shape[2] for G in Y2[:-1]], r), case=case)
                if r >= need + 0 and r >= 2:
                    ctx.check(np.abs(F.dense(Y2) - v2).max() <= 1e-7 * (1 + np.abs(v2).max()), 'anova:order2',
                              'order-2 tensor (r=%d >= needed %d) differs from f0 + sum f1 + sum f2 by %.2e' % (r, need, np.abs(F.dense(Y2) - v2).max()), case=case)
    # ---- shape / rank clauses in higher dimensions (the number of pair terms grows as d (d - 1) / 2: 6, 10, 15, 21, 28)
    for t in range(10 if quick else 60):
        d = 4 + t % 5
        n = [int(x) for x in rng.integers(2, 4, size=d)]
        m_ = 40 + 10 * d
        I = np.stack([rng.integers(0, k, size=m_) for k in n], axis=1)
        I = np.vstack([I, np.array([[j % k for k in n] for j in range(max(n))])])          # every index value observed
        y = rng.normal(size=len(I))
        for order_ in (1, 2):
            for r in (2, 3):
                Yh = teneva.anova(I, y, r=r, order=order_, noise=1e-10, seed=t)
                ctx.case(key=('ranks-high-d', d, order_, r, t, ctx.seed), nontrivial=True)
                okh = F.is_wellformed(Yh, n)
                rk = [G.shape[2] for G in Yh[:-1]] if okh else None
                okh = okh and (all(x == r for x in rk) if order_ == 1 else max(rk) <= r)
                ctx.check(okh, 'anova:ranks%d' % order_, 'order-%d ANOVA in dimension %d (mode sizes %s): TT-ranks %s for requested rank %d' % (order_, d, n, rk, r))
    # ---- one step beyond the tabulated data sets: thousands of samples, modes up to 30, gaps in the observed labels;
    #      order 1 against the definition (sample mean, conditional sample means), computed here with plain numpy
    for t in range(4 if quick else 30):
        d = int(rng.integers(2, 6))
        n = [int(x) for x in rng.integers(5, 31, size=d)]
        m_ = int(rng.integers(800, 4000))
        labels = [np.sort(rng.choice(3 * k, size=k, replace=False)) for k in n]            # observed labels with gaps
        P = np.stack([rng.integers(0, k, size=m_) for k in n], axis=1)
        P = np.vstack([P, np.array([[j % k for k in n] for j in range(max(n))])])
        I = np.stack([labels[k][P[:, k]] for k in range(d)], axis=1)
        y = rng.normal(size=len(I)) + 0.1 * P[:, 0]
        f0 = y.mean()
        f1 = [np.array([y[P[:, k] == j].mean() - f0 for j in range(n[k])]) for k in range(d)]
        Yb = teneva.anova(I, y, r=2, order=1, noise=0., seed=t)
        ctx.case(key=('large-data', n, len(y), t, ctx.seed), nontrivial=True)
        okb = F.is_wellformed(Yb, n)
        if okb:
            Q = np.stack([rng.integers(0, k, size=200) for k in n], axis=1)
            refb = f0 + sum(f1[k][Q[:, k]] for k in range(d))
            okb = np.abs(np.asarray(teneva.get_many(Yb, Q)) - refb).max() <= 1e-10 * (1 + np.abs(refb).max())
        ctx.check(okb, 'anova:order1', 'order-1 ANOVA of %d samples on labels with gaps (observed mode sizes %s): tensor differs from f0 + sum f1 of the definition' % (len(y), n))
    # ---- additive function on a full grid is reproduced exactly
    for t in range(10 if quick else 60):
        d = int(rng.integers(2, 5))
        n = [int(x) for x in rng.integers(2, 5, size=d)]
        g = [rng.normal(size=k) for k in n]
        I = teneva.grid_flat(n)
        y = sum(g[k][I[:, k]] for k in range(d)) + 0.7
        Y = teneva.anova(I, y, r=2, order=1, noise=0., seed=t)
        ctx.case(key=('additive', t, ctx.seed), nontrivial=True)
        ctx.check(F.is_wellformed(Y, n) and np.abs(teneva.get_many(Y, I) - y).max() <= 1e-10 * (1 + np.abs(y).max()), 'anova:additive',
                  'additive function on a full grid is not reproduced')
    # ---- functional variant against an independent ridge / Chebyshev reference
    for t in range(12 if quick else 80):
        d = int(rng.integers(2, 4))
        n = int(rng.integers(2, 6))
        m = int(rng.integers(15, 60))
        a, b = (-1., 1.) if t % 2 == 0 else (0.5, 3.0)
        X = rng.uniform(a, b, size=(m, d))
        y = (rng.normal(size=m) + 2.0 + X[:, 0]) * [1., 1e-6, 1e3, 1e-9][t % 4]      # the model is covariant under y -> s y
        lamb = float(rng.choice([1e-7, 1e-3, 1.]))
        plain = t % 3 == 2
        if plain:
            lamb = 0.          # plain least squares (the design is well conditioned: 15+ random points, at most 5 basis functions)
        X0, y0 = X.copy(), y.copy()
        for rep in range(2):                      # a second fit on the same arrays must see the same data
            A = teneva.anova_func(X, y, n, a, b, lamb=lamb, e=1e-14 if plain else 1e-12) if (t % 2 == 0 or plain) else teneva.anova_func(X, y, n, a, b, lamb=lamb)
            Tm = np.polynomial.chebyshev.chebvander((2 * X0 - a - b) / (b - a), n - 1)      # m x d x n
            c0 = float(np.mean(y0))
            yc = y0 - c0
            cfs = []
            for k in range(d):
                Ak = Tm[:, k, :]
                ck = np.linalg.solve(Ak.T @ Ak + lamb * np.eye(n), Ak.T @ yc)
                c0 += ck[0]
                cfs.append(ck[1:])
            Xt = rng.uniform(a, b, size=(25, d))
            Tt = np.polynomial.chebyshev.chebvander((2 * Xt - a - b) / (b - a), n - 1)
            ref = c0 + sum(Tt[:, k, 1:] @ cfs[k] for k in range(d))
            ctx.case(key=('anova_func', t, rep, ctx.seed), nontrivial=True)
            if not ctx.check(F.is_wellformed(A, [n] * d), 'anova_func:wellformed', 'coefficient cores malformed'):
                continue
            got = teneva.func_get(Xt, A, a, b)
            ctx.check(np.abs(got - ref).max() <= (1e-10 if plain else 1e-6 if t % 2 == 0 else 1e-5) * np.abs(ref).max(), 'anova_func:model',
                      'interpolant of the coefficient cores differs from constant + sum of fitted 1-D expansions by %.2e (fit #%d on the same arrays)' % (np.abs(got - ref).max(), rep + 1))
            cl = teneva.ANOVA_func(X, y, n, a, b, lamb).coeffs
            tc_ = 1e-3 if plain else 1.
            ctx.check(abs(cl[0] - c0) <= 1e-8 * tc_ * abs(c0) and all(np.abs(u - v).max() <= 1e-7 * tc_ * (abs(c0) + np.abs(v).max()) for u, v in zip(cl[1:], cfs)),
                      'ANOVA_func:coeffs', 'fitted coefficients differ from the %s reference (lamb = %g)' % ('least-squares' if plain else 'ridge', lamb))
