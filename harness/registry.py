"""Registry of call variants over teneva's exported API (C09, C10, C11).

Each entry builds fresh arguments: name -> () -> (function, args, kwargs).
Classes: 'pure' (default), 'pass' (documented pass-through), 'inplace'.
"""
import contextlib
import io

import numpy as np

import teneva


def tt(n=(3, 4, 3), r=2, seed=1):
    return teneva.rand(list(n), r, seed=seed)


n3 = [3, 4, 3]
n2 = [4, 4, 4]


def data(Y, m=60, seed=1):
    I = np.vstack([teneva.grid_flat(teneva.shape(Y)), teneva.sample_lhs(teneva.shape(Y), m, seed=seed)])
    return I, teneva.get_many(Y, I)


I0, y0 = data(tt())
X0 = np.random.default_rng(1).uniform(-1, 1, size=(50, 3))
yX = X0[:, 0] * X0[:, 1] + X0[:, 2]
A0 = teneva.func_int(teneva.rand([4, 4, 4], 2, seed=5))
Fd = teneva.full(tt([3, 3, 3], 2, 7))
T4 = tt(n2, 2, 3)
XC = np.cos(np.pi * np.arange(5) / 4)
# sparse training set: every slice is covered but most index pairs of neighbouring modes never occur together
I_SP = np.array([[j, j, j] for j in range(4)] + [[0, 1, 2], [1, 2, 3], [2, 3, 0], [3, 0, 1]])
Y_SP = teneva.get_many(teneva.rand([4, 4, 4], 2, seed=1), I_SP)
I_TT, IDX_TT, IDXM_TT = teneva.sample_tt([5, 5, 5], 3, seed=1)
Y_TT = teneva.get_many(teneva.rand([5, 5, 5], 2, seed=2), I_TT)


FD_BIG = teneva.full(tt([20, 18, 20], 3, 7))
I_TTB, IDX_TTB, IDXM_TTB = teneva.sample_tt([12, 12, 12], 3, seed=1)
Y_TTB = teneva.get_many(teneva.rand([12, 12, 12], 2, seed=2), I_TTB)
I_BIG = np.vstack([np.stack([np.arange(20)] * 3, axis=1), teneva.sample_lhs([20, 20, 20], 1500, seed=3)])
Y_BIGD = teneva.get_many(teneva.rand([20, 20, 20], 2, seed=4), I_BIG)


I_SW = teneva.grid_flat([4, 4, 4, 4])
_g_sw, _h_sw = np.random.default_rng(0).normal(size=(4, 4)), np.random.default_rng(1).normal(size=(4, 4))
Y_SW = _g_sw[I_SW[:, 0], I_SW[:, 2]] * _h_sw[I_SW[:, 1], I_SW[:, 3]]


def tn1(seed=7):
    rng = np.random.default_rng(seed)
    n, r = [3, 1, 4, 1], [1, 2, 2, 2, 1]
    return [rng.normal(size=(r[k], n[k], r[k + 1])) for k in range(4)]


def _f_cross(I):
    return teneva.get_many(tt(), I)


def _same2(fn):
    return lambda Y, **kw: fn(Y, Y, **kw)


def tt_shared(n=3, d=4, rho=2, seed=3):
    """a TT-tensor in which one (Fortran-ordered) ndarray object fills every interior slot"""
    rng = np.random.default_rng(seed)
    G = np.asfortranarray(rng.normal(size=(rho, n, rho)))
    A = np.asfortranarray(rng.normal(size=(1, n, rho)))
    B = np.asfortranarray(rng.normal(size=(rho, n, 1)))
    return [A] + [G] * (d - 2) + [B]


CALLS = {
    # the same object passed in two argument positions / the same ndarray in several slots of one tensor
    'add_same': lambda: (_same2(teneva.add), (tt(),), {}),
    'sub_same': lambda: (_same2(teneva.sub), (tt(),), {}),
    'mul_same': lambda: (_same2(teneva.mul), (tt(),), {}),
    'outer_same': lambda: (_same2(teneva.outer), (tt(),), {}),
    'mul_scalar_same': lambda: (_same2(teneva.mul_scalar), (tt(),), {}),
    'accuracy_same': lambda: (_same2(teneva.accuracy), (tt(),), {}),
    'add_many_same': lambda: ((lambda Y: teneva.add_many([Y, Y, Y], e=1e-10)), (tt(),), {}),
    'orthogonalize_shared': lambda: (teneva.orthogonalize, (tt_shared(), 1), {}),
    'orthogonalize_shared_stab': lambda: (teneva.orthogonalize, (tt_shared(), 2), dict(use_stab=True)),
    'orthogonalize_left_shared': lambda: (teneva.orthogonalize_left, (tt_shared(), 1), {}),
    'orthogonalize_right_shared': lambda: (teneva.orthogonalize_right, (tt_shared(), 2), {}),
    'truncate_shared': lambda: (teneva.truncate, (tt_shared(), 1e-3), {}),
    'truncate_shared_svd': lambda: (teneva.truncate, (tt_shared(rho=1), 1e-3), dict(is_eigh=False)),
    'sum_shared': lambda: (teneva.sum, (tt_shared(),), {}),
    'norm_shared': lambda: (teneva.norm, (tt_shared(),), dict(use_stab=True)),
    'sample_square_shared': lambda: (teneva.sample_square, (tt_shared(), 5), dict(seed=1)),
    'optima_tt_shared': lambda: (teneva.optima_tt, (tt_shared(), 3), {}),
    'tt_to_qtt_shared': lambda: (teneva.tt_to_qtt, (tt_shared(n=4),), {}),
    'add_many': lambda: (teneva.add_many, ([tt(seed=1), tt(seed=2), 3., tt(seed=3)],), {}),
    'add_many_freq': lambda: (teneva.add_many, ([tt(seed=1), tt(seed=2), tt(seed=3), tt(seed=4)],), dict(e=1e-3, r=3, trunc_freq=2)),
    'outer_many': lambda: (teneva.outer_many, ([tt(seed=1), tt(seed=2)],), {}),
    'copy': lambda: (teneva.copy, (tt(),), {}),
    'copy_arr': lambda: (teneva.copy, (np.arange(4.),), {}),
    'interface': lambda: (teneva.interface, (tt(),), {}),
    'interface_P_i': lambda: (teneva.interface, (tt(), [np.ones(3) / 3, np.ones(4) / 4, np.ones(3) / 3], np.array([1, 2, 0])), dict(norm='natural', ltr=True)),
    'interface_none': lambda: (teneva.interface, (tt(),), dict(norm=None, ltr=True)),
    'get': lambda: (teneva.get, (tt(), np.array([1, 2, 0])), {}),
    'get_batch': lambda: (teneva.get, (tt(), I0[:5].copy()), {}),
    'get_and_grad': lambda: (teneva.get_and_grad, (tt(), np.array([1, 2, 0])), {}),
    'get_many': lambda: (teneva.get_many, (tt(), I0[:7].copy()), {}),
    'mean': lambda: (teneva.mean, (tt(),), {}),
    'mean_P': lambda: (teneva.mean, (tt(), [np.ones(3) / 3, np.ones(4) / 4, np.ones(3) / 3]), {}),
    'norm': lambda: (teneva.norm, (tt(),), {}),
    'norm_stab': lambda: (teneva.norm, (tt(), True), {}),
    'qtt_to_tt': lambda: (teneva.qtt_to_tt, (teneva.tt_to_qtt(T4), 2), {}),
    'qtt_to_tt_q1': lambda: (teneva.qtt_to_tt, (teneva.rand([2, 2, 2], 2, seed=3), 1), {}),
    'sum': lambda: (teneva.sum, (tt(),), {}),
    'tt_to_qtt': lambda: (teneva.tt_to_qtt, (teneva.copy(T4),), {}),
    'tt_to_qtt_cap': lambda: (teneva.tt_to_qtt, (teneva.copy(T4), 1e-3, 2), {}),
    'accuracy': lambda: (teneva.accuracy, (tt(seed=1), tt(seed=2)), {}),
    'accuracy_np': lambda: (teneva.accuracy, (Fd.copy(), Fd.copy() + 1), {}),
    'add': lambda: (teneva.add, (tt(seed=1), tt(seed=2)), {}),
    'add_d2': lambda: (teneva.add, (tt([3, 4], 2, 1), tt([3, 4], 3, 2)), {}),
    'add_num': lambda: (teneva.add, (tt(seed=1), 2.), {}),
    'add_num_l': lambda: (teneva.add, (2., tt(seed=1)), {}),
    'mul': lambda: (teneva.mul, (tt(seed=1), tt(seed=2)), {}),
    'mul_num': lambda: (teneva.mul, (tt(seed=1), 2.), {}),
    'mul_num_l': lambda: (teneva.mul, (2., tt(seed=1)), {}),
    'mul_scalar': lambda: (teneva.mul_scalar, (tt(seed=1), tt(seed=2)), {}),
    'mul_scalar_stab': lambda: (teneva.mul_scalar, (tt(seed=1), tt(seed=2), True), {}),
    'outer': lambda: (teneva.outer, (tt(seed=1), tt(seed=2)), {}),
    'sub': lambda: (teneva.sub, (tt(seed=1), tt(seed=2)), {}),
    'sub_num': lambda: (teneva.sub, (tt(seed=1), 2.), {}),
    'sub_num_l': lambda: (teneva.sub, (2., tt(seed=1)), {}),
    'als': lambda: (teneva.als, (I0.copy(), y0.copy(), tt(seed=9)), dict(nswp=2, info={})),
    'als_w': lambda: (teneva.als, (I0.copy(), y0.copy(), tt(seed=9)), dict(nswp=2, info={}, w=np.ones(len(y0)), lamb=None)),
    'als_vld': lambda: (teneva.als, (I0.copy(), y0.copy(), tt(seed=9)), dict(nswp=2, info={}, I_vld=I0[:9].copy(), y_vld=y0[:9].copy(), e_vld=1e-3)),
    # the experimental mode-swap option on data for which a swap really happens: f = g(i0, i2) * h(i1, i3) on the full grid
    'als_adapt_swap': lambda: (teneva.als, (I_SW.copy(), Y_SW.copy(), teneva.rand([4, 4, 4, 4], 2, seed=1)),
                               dict(nswp=3, r=16, lamb=1.E-8, info={}, I_vld=I_SW.copy(), y_vld=Y_SW.copy(), allow_swap=True)),
    'als_adapt': lambda: (teneva.als, (I0.copy(), y0.copy(), tt(r=1, seed=9)), dict(nswp=2, info={}, r=3)),
    'als_adapt_sparse': lambda: (teneva.als, (I_SP.copy(), Y_SP.copy(), teneva.rand([4, 4, 4], 1, seed=2)), dict(nswp=2, info={}, r=3)),
    # n_max given: equal to the mode size of the initial tensor (nothing to pad), larger, and a result fed back in
    'als_func_nmax_eq': lambda: (teneva.als_func, (X0.copy(), yX.copy(), tt([3, 3, 3], 2, 4)), dict(nswp=2, info={}, n_max=3)),
    'als_func_nmax': lambda: (teneva.als_func, (X0.copy(), yX.copy(), tt([2, 2, 2], 2, 4)), dict(nswp=2, info={}, n_max=4)),
    'als_func_nmax_again': lambda: (teneva.als_func, (X0.copy(), yX.copy(), teneva.als_func(X0.copy(), yX.copy(), tt([2, 2, 2], 2, 4), nswp=1, info={}, n_max=4)), dict(nswp=1, info={}, n_max=4)),
    'als_func': lambda: (teneva.als_func, (X0.copy(), yX.copy(), tt([3, 3, 3], 2, 4)), dict(nswp=2, info={})),
    'als_func_nolamb': lambda: (teneva.als_func, (X0.copy(), yX.copy(), tt([2, 2, 2], 2, 4)), dict(nswp=2, info={}, lamb=None)),
    'als_func_vld': lambda: (teneva.als_func, (X0.copy(), yX.copy(), tt([3, 3, 3], 2, 4)), dict(nswp=2, info={}, X_vld=X0[:5].copy(), y_vld=yX[:5].copy())),
    'anova': lambda: (teneva.anova, (I0.copy(), y0.copy()), dict(r=2, order=1, seed=1)),
    'anova2': lambda: (teneva.anova, (I0.copy(), y0.copy()), dict(r=3, order=2, seed=1)),
    # another training set of the same size (the rows of the first one, reversed and shifted): whatever one call memoises
    # about its samples must not be visible to the next
    'anova2_other': lambda: (teneva.anova, (((I0[::-1] + 1) % np.array(n3)).copy(), y0[::-1].copy() * 2. + 1.), dict(r=3, order=2, seed=1)),
    'anova_other': lambda: (teneva.anova, (((I0[::-1] + 1) % np.array(n3)).copy(), y0[::-1].copy() * 2. + 1.), dict(r=2, order=1, seed=1)),
    'ANOVA_call_other': lambda: (lambda I, y, J: teneva.ANOVA(I, y, order=2, seed=1)(J), (((I0[::-1] + 1) % np.array(n3)).copy(), y0[::-1].copy() * 2. + 1., I0[:4].copy()), {}),
    'anova_func': lambda: (teneva.anova_func, (X0.copy(), yX.copy(), 3), {}),
    'ANOVA_call': lambda: (lambda I, y, J: teneva.ANOVA(I, y, order=2, seed=1)(J), (I0.copy(), y0.copy(), I0[:4].copy()), {}),
    'ANOVA_func_coeffs': lambda: (lambda X, y: teneva.ANOVA_func(X, y, 3).coeffs, (X0.copy(), yX.copy()), {}),
    'core_dot': lambda: (teneva.core_dot, (tt()[1], np.eye(2) + .1), {}),
    'core_dot_r': lambda: (teneva.core_dot, (tt()[1], np.eye(2) + .1), dict(ltr=False)),
    'core_dot_inv': lambda: (teneva.core_dot_inv, (tt()[1], np.eye(2) + .1), {}),
    'core_dot_maxvol': lambda: (teneva.core_dot_maxvol, (tt()[1], np.eye(2) + .1), {}),
    'core_qr_rand': lambda: (teneva.core_qr_rand, (tt()[1], 1), dict(seed=1)),
    'core_qtt_to_tt': lambda: (teneva.core_qtt_to_tt, (teneva.core_tt_to_qtt(T4[1]),), {}),
    'core_qtt_to_tt_q1': lambda: (teneva.core_qtt_to_tt, ([np.arange(8.).reshape(2, 2, 2)],), {}),
    'core_stab': lambda: (teneva.core_stab, (tt()[1] * 100,), {}),
    'core_stab_p0': lambda: (teneva.core_stab, (np.array([[[1.5, -0.25], [0.5, 1.0]]]),), {}),
    'core_stab_ones': lambda: (teneva.core_stab, (np.ones((2, 3, 2)), 4), {}),
    'core_stab_small': lambda: (teneva.core_stab, (tt()[1] * 1e-3,), {}),
    'core_stab_tiny': lambda: (teneva.core_stab, (tt()[1] * 1e-120,), {}),
    'core_tt_to_qtt': lambda: (teneva.core_tt_to_qtt, (T4[1].copy(),), {}),
    'cross': lambda: (teneva.cross, (_f_cross, tt(r=1, seed=8)), dict(nswp=2, info={}, cache={})),
    'cross_vld': lambda: (teneva.cross, (_f_cross, tt(r=1, seed=8)), dict(nswp=2, info={}, I_vld=I0[:9].copy(), y_vld=y0[:9].copy())),
    'cross_act_dr2': lambda: (teneva.cross_act, (lambda X: X[:, 0] * X[:, 1], [tt(seed=1), tt(seed=2)], tt(r=1, seed=3)), dict(nswp=2, seed=1, dr=2, dr2=1)),
    'cross_act_dr0': lambda: (teneva.cross_act, (lambda X: X[:, 0] + X[:, 1], [tt(seed=1), tt(seed=2)], tt(r=2, seed=3)), dict(nswp=1, seed=1, dr=0)),
    'cross_act': lambda: (teneva.cross_act, (lambda X: X[:, 0] * X[:, 1], [tt(seed=1), tt(seed=2)], tt(r=1, seed=3)), dict(nswp=2, seed=1)),
    'accuracy_on_data': lambda: (teneva.accuracy_on_data, (tt(), I0.copy(), y0.copy()), {}),
    'accuracy_on_data_tr': lambda: (teneva.accuracy_on_data, (tt(), I0.copy(), y0.copy(), 1e-3), {}),
    'cache_to_data': lambda: (teneva.cache_to_data, ({(1, 2, 3): 4., (0, 0, 0): 1.},), {}),
    'func_basis': lambda: (teneva.func_basis, (X0.copy(), 4), {}),
    'func_diff_matrix': lambda: (teneva.func_diff_matrix, (-1, 1, 5, 2), {}),
    'func_get': lambda: (teneva.func_get, (X0.copy(), teneva.copy(A0), -1, 1), {}),
    'func_get_one': lambda: (teneva.func_get, (X0[0].copy(), teneva.copy(A0), -1, 1), {}),
    'func_gets': lambda: (teneva.func_gets, (teneva.copy(A0), 6), {}),
    'func_gets_sin': lambda: (teneva.func_gets, (teneva.copy(A0),), dict(kind='sin')),
    'func_int': lambda: (teneva.func_int, (tt(n2, 2, 5),), {}),
    'func_int_sin': lambda: (teneva.func_int, (tt(n2, 2, 5),), dict(kind='sin')),
    'func_int_general': lambda: (teneva.func_int_general, (tt([5, 5, 5], 2, 5), XC.copy(), lambda x: teneva.func_basis(x, 5)), {}),
    'func_int_general_r1': lambda: (teneva.func_int_general, (tt([5, 5], 1, 5), XC.copy(), lambda x: teneva.func_basis(x, 4)), {}),
    'func_sum': lambda: (teneva.func_sum, (teneva.copy(A0), [-1, 0, -2], [1, 2, 2]), {}),
    'func_get_full': lambda: (teneva.func_get_full, (X0.copy(), Fd.copy(), -1, 1), {}),
    'func_gets_full': lambda: (teneva.func_gets_full, (Fd.copy(), -1, 1, 4), {}),
    'func_int_full': lambda: (teneva.func_int_full, (Fd.copy(),), {}),
    'func_sum_full': lambda: (teneva.func_sum_full, (Fd.copy(), -1, 1), {}),
    'grid_flat': lambda: (teneva.grid_flat, (np.array([2, 3]),), {}),
    'grid_prep_opt': lambda: (teneva.grid_prep_opt, (np.array([0., 1.]), 2), {}),
    'grid_prep_opts': lambda: (teneva.grid_prep_opts, (np.array([0., 1.]), 2., [3, 4]), {}),
    'ind_qtt_to_tt': lambda: (teneva.ind_qtt_to_tt, (np.array([[1, 0, 1, 1], [0, 0, 1, 0]]), 2), {}),
    'ind_to_poi': lambda: (teneva.ind_to_poi, (I0[:5].copy(), np.array([-1., 0, 1]), np.array([1., 2, 3]), np.array([3, 4, 3])), dict(kind='cheb')),
    'ind_tt_to_qtt': lambda: (teneva.ind_tt_to_qtt, (np.array([[1, 3], [2, 0]]), 4), {}),
    'ind_tt_to_qtt_one': lambda: (teneva.ind_tt_to_qtt, (np.array([1, 3]), 4), {}),
    'poi_scale': lambda: (teneva.poi_scale, (X0.copy(), -1, 1), dict(kind='cheb')),
    'poi_to_ind': lambda: (teneva.poi_to_ind, (X0.copy(), -1, 1, 5), dict(kind='uni')),
    'poi_to_ind_one': lambda: (teneva.poi_to_ind, (X0[0].copy(), np.array([-1., -1, -1]), np.array([1., 1, 1]), np.array([5, 6, 7])), dict(kind='cheb')),
    'matrix_delta': lambda: (teneva.matrix_delta, (3, 2, 5), {}),
    'maxvol': lambda: (teneva.maxvol, (np.random.default_rng(1).normal(size=(8, 3)),), {}),
    'maxvol_rect': lambda: (teneva.maxvol_rect, (np.random.default_rng(1).normal(size=(8, 3)), 1.1, 1, 2), {}),
    'optima_qtt': lambda: (teneva.optima_qtt, (teneva.copy(T4), 5), {}),
    'optima_tt': lambda: (teneva.optima_tt, (tt(), 5), {}),
    'optima_tt_beam': lambda: (teneva.optima_tt_beam, (tt(), 5), dict(ret_all=True)),
    'optima_tt_beam_r': lambda: (teneva.optima_tt_beam, (tt(), 5), dict(l2r=False)),
    'optima_tt_max': lambda: (teneva.optima_tt_max, (tt(), 5), {}),
    'optima_tt_maxvol': lambda: (teneva.optima_tt_maxvol, (tt(), 3), {}),
    'optima_func_tt_beam': lambda: (teneva.optima_func_tt_beam, (teneva.copy(A0), 3), {}),
    'erank': lambda: (teneva.erank, (tt(),), {}),
    'ranks': lambda: (teneva.ranks, (tt(),), {}),
    'shape': lambda: (teneva.shape, (tt(),), {}),
    'size': lambda: (teneva.size, (tt(),), {}),
    'sample': lambda: (teneva.sample, ([np.abs(G) for G in tt()], 5), dict(seed=1)),
    'sample_square': lambda: (teneva.sample_square, (tt(), 5), dict(seed=1)),
    'sample_square_nu': lambda: (teneva.sample_square, (tt(), 5), dict(seed=1, unique=False)),
    'sample_lhs': lambda: (teneva.sample_lhs, (np.array([3, 4, 3]), 7), dict(seed=1)),
    'sample_rand': lambda: (teneva.sample_rand, (np.array([3, 4, 3]), 7), dict(seed=1)),
    'sample_rand_poi': lambda: (teneva.sample_rand_poi, (np.array([0., 1]), np.array([1., 3]), 5), dict(seed=1)),
    'sample_tt': lambda: (teneva.sample_tt, ([3, 4, 3], 2), dict(seed=1)),
    'sample_func': lambda: (teneva.sample_func, (teneva.copy(A0),), dict(seed=1)),
    'cdf_confidence': lambda: (teneva.cdf_confidence, (np.array([.1, .5, .9]),), {}),
    'cdf_getter': lambda: (teneva.cdf_getter, (np.array([3., 1, 2]),), {}),
    'matrix_skeleton': lambda: (teneva.matrix_skeleton, (np.random.default_rng(1).normal(size=(5, 4)), 1e-3, 3), {}),
    'matrix_svd': lambda: (teneva.matrix_svd, (np.random.default_rng(1).normal(size=(5, 4)), 1e-3, 3), {}),
    'matrix_svd_wide': lambda: (teneva.matrix_svd, (np.random.default_rng(1).normal(size=(4, 6)), 1e-3, 3), {}),
    'svd': lambda: (teneva.svd, (Fd.copy(), 1e-3), {}),
    # large modes with a small rank cap (any "truncated solver for big unfoldings" branch is only reachable here)
    'matrix_skeleton_big': lambda: (teneva.matrix_skeleton, (np.random.default_rng(1).normal(size=(40, 30)), 1e-3, 2), {}),
    'matrix_skeleton_big_rel': lambda: (teneva.matrix_skeleton, (np.random.default_rng(2).normal(size=(30, 64)), 1e-3, 3), dict(rel=True, give_to='r')),
    'matrix_svd_big': lambda: (teneva.matrix_svd, (np.random.default_rng(1).normal(size=(48, 20)), 1e-3, 2), {}),
    'svd_big_cap': lambda: (teneva.svd, (FD_BIG.copy(), 1e-3, 2), {}),
    'svd_incomplete_big': lambda: (teneva.svd_incomplete, (I_TTB.copy(), Y_TTB.copy(), IDX_TTB.copy(), IDXM_TTB.copy(), 1e-10, 2), {}),
    'truncate_svd_big': lambda: (teneva.truncate, (tt((20, 18, 20), 6, 3), 1e-2, 2), dict(is_eigh=False)),
    'truncate_big': lambda: (teneva.truncate, (tt((20, 18, 20), 6, 3), 1e-2, 2), {}),
    'als_adapt_big': lambda: (teneva.als, (I_BIG.copy(), Y_BIGD.copy(), teneva.rand([20, 20, 20], 1, seed=9)), dict(nswp=1, info={}, r=2)),
    'svd_matrix': lambda: (teneva.svd_matrix, (np.random.default_rng(1).normal(size=(8, 8)), 1e-3), {}),
    'svd_incomplete': lambda: (teneva.svd_incomplete, (I_TT.copy(), Y_TT.copy(), IDX_TT.copy(), IDXM_TT.copy(), 1e-10, 3), {}),
    'const': lambda: (teneva.const, (np.array([3, 4, 3]), 2., np.array([[0, 1, 2], [1, 1, 1]]), np.array([2, 2, 2])), {}),
    'delta': lambda: (teneva.delta, (np.array([3, 4, 3]), np.array([1, 2, 0]), 3.), {}),
    'poly': lambda: (teneva.poly, (np.array([3, 4, 3]), np.array([1., 0, 2]), 2, 3.), {}),
    'rand': lambda: (teneva.rand, (np.array([3, 4, 3]), np.array([1, 2, 3, 1])), dict(seed=1)),
    'rand_custom': lambda: (teneva.rand_custom, (np.array([3, 4, 3]), 2, lambda s: np.arange(s, dtype=float)), {}),
    'rand_norm': lambda: (teneva.rand_norm, (np.array([3, 4, 3]), 2), dict(seed=1)),
    'rand_stab': lambda: (teneva.rand_stab, (np.array([3, 4, 3]), 2), dict(seed=1)),
    'full': lambda: (teneva.full, (tt(),), {}),
    'full_matrix': lambda: (teneva.full_matrix, (teneva.svd_matrix(np.random.default_rng(1).normal(size=(8, 8))),), {}),
    'orthogonalize': lambda: (teneva.orthogonalize, (tt(), 1), {}),
    'orthogonalize_stab': lambda: (teneva.orthogonalize, (tt(), 1, True), {}),
    'orthogonalize_left': lambda: (teneva.orthogonalize_left, (tt(), 0), {}),
    'orthogonalize_right': lambda: (teneva.orthogonalize_right, (tt(), 2), {}),
    'truncate': lambda: (teneva.truncate, (tt(), 1e-2), {}),
    # single-core tensors (d = 1): sweeps have no steps, so nothing is "replaced anyway"
    'truncate_d1': lambda: (teneva.truncate, ([np.random.default_rng(1).normal(size=(1, 5, 1))], 1e-2), {}),
    'truncate_d1_noorth': lambda: (teneva.truncate, ([np.random.default_rng(1).normal(size=(1, 5, 1))], 1e-2), dict(orth=False)),
    'truncate_d1_noorth_stab': lambda: (teneva.truncate, ([np.random.default_rng(1).normal(size=(1, 5, 1))], 1e-2), dict(orth=False, use_stab=True)),
    'truncate_d2_noorth': lambda: (teneva.truncate, (teneva.orthogonalize(tt((3, 4), 2, 3), 1), 1e-2), dict(orth=False)),
    'orthogonalize_d1': lambda: (teneva.orthogonalize, ([np.random.default_rng(2).normal(size=(1, 4, 1))], 0), {}),
    'copy_d1': lambda: (teneva.copy, ([np.random.default_rng(2).normal(size=(1, 4, 1))],), {}),
    'add_d1': lambda: (teneva.add, ([np.ones((1, 3, 1))], [np.full((1, 3, 1), 2.)]), {}),
    'mul_d1': lambda: (teneva.mul, ([np.ones((1, 3, 1))], 2.5), {}),
    'get_many_d1': lambda: (teneva.get_many, ([np.arange(4.).reshape(1, 4, 1)], np.array([[1], [3]])), {}),
    'truncate_svd': lambda: (teneva.truncate, (tt(), 1e-2), dict(is_eigh=False)),
    'truncate_stab': lambda: (teneva.truncate, (tt(), 1e-2), dict(use_stab=True)),
    'truncate_noorth': lambda: (teneva.truncate, (teneva.orthogonalize(tt(), 2), 1e-2), dict(orth=False)),
    'vector_delta': lambda: (teneva.vector_delta, (3, -2, 2.), {}),
    # tensors with modes of size one (shape [3, 1, 4, 1], ranks 2): fast paths for such modes must still return fresh cores
    'func_int_sin_n1': lambda: (teneva.func_int, (tn1(),), dict(kind='sin')),
    'func_gets_sin_n1': lambda: (teneva.func_gets, (tn1(),), dict(kind='sin')),
    'func_get_n1': lambda: (teneva.func_get, (np.random.default_rng(1).uniform(-1, 1, size=(5, 4)), tn1(), -1, 1), {}),
    'func_sum_n1': lambda: (teneva.func_sum, (tn1(), -1, 1), {}),
    'truncate_n1': lambda: (teneva.truncate, (tn1(), 1e-2), {}),
    'truncate_n1_stab': lambda: (teneva.truncate, (tn1(), 1e-2), dict(use_stab=True)),
    'orthogonalize_n1': lambda: (teneva.orthogonalize, (tn1(), 2), {}),
    'orthogonalize_n1_stab': lambda: (teneva.orthogonalize, (tn1(), 1), dict(use_stab=True)),
    'orthogonalize_left_n1': lambda: (teneva.orthogonalize_left, (tn1(), 1), {}),
    'orthogonalize_right_n1': lambda: (teneva.orthogonalize_right, (tn1(), 1), {}),
    'add_n1': lambda: (teneva.add, (tn1(), tn1(8)), {}),
    'mul_n1': lambda: (teneva.mul, (tn1(), tn1(8)), {}),
    'sub_n1': lambda: (teneva.sub, (tn1(), tn1(8)), {}),
    'outer_n1': lambda: (teneva.outer, (tn1(), tn1(8)), {}),
    'copy_n1': lambda: (teneva.copy, (tn1(),), {}),
    'interface_n1': lambda: (teneva.interface, (tn1(),), {}),
    'svd_n1': lambda: (teneva.svd, (np.random.default_rng(3).normal(size=(3, 1, 4, 1)), 1e-10), {}),
    'optima_tt_n1': lambda: (teneva.optima_tt, (tn1(),), {}),
    'sample_n1': lambda: (teneva.sample, (tn1(), 3), dict(seed=4)),
    'get_and_grad_n1': lambda: (teneva.get_and_grad, (tn1(), [1, 0, 2, 0]), {}),
    'full_n1': lambda: (teneva.full, (tn1(),), {}),
}

# documented pass-through helpers (by call variant: core_stab only below its threshold)
PASS_THROUGH = {'grid_prep_opt', 'grid_prep_opts', 'core_stab_tiny'}
# deliberately filled dictionaries
FILL_KEYS = {'info', 'cache'}
# exported names that cannot run in this sandbox (with the reason) or are not functions with results
EXCLUDED = {
    'getter': 'needs numba (absent)',
    'show': 'prints only',
    'func_diff_matrix_apply': 'undocumented helper (no docstring contract); raises for documented argument shapes',
    'ANOVA': 'class (covered through ANOVA_call)', 'ANOVA_func': 'class (covered through ANOVA_func_coeffs)',
}


def exported_functions():
    out = []
    for k in dir(teneva):
        if k.startswith('_'):
            continue
        v = getattr(teneva, k)
        if callable(v) and not isinstance(v, type(teneva)):
            out.append(k)
    return out


def base_name(call):
    """registry key -> exported name it exercises"""
    names = sorted(exported_functions(), key=len, reverse=True)
    for n in names:
        if call == n or call.startswith(n + '_'):
            return n
    return call


def missing_exports():
    covered = {base_name(c) for c in CALLS}
    covered |= {'ANOVA', 'ANOVA_func'}
    return [k for k in exported_functions() if k not in covered and k not in EXCLUDED]


def quiet(f, *a, **k):
    with contextlib.redirect_stdout(io.StringIO()):
        return f(*a, **k)


def arrays(o, out=None):
    """distinct ndarray objects reachable from o (lists / tuples / dicts)"""
    if out is None:
        out = []
    if isinstance(o, np.ndarray):
        if not any(o is x for x in out):
            out.append(o)
    elif isinstance(o, (list, tuple)):
        for v in o:
            arrays(v, out)
    elif isinstance(o, dict):
        for v in o.values():
            arrays(v, out)
    return out


def snap(o):
    if isinstance(o, np.ndarray):
        return ('arr', o.shape, str(o.dtype), o.tobytes())
    if isinstance(o, (list, tuple)):
        return (type(o).__name__, tuple(snap(v) for v in o))
    if isinstance(o, dict):
        return ('dict', tuple((repr(k), snap(v)) for k, v in o.items()))
    if callable(o):
        return ('fn',)
    return ('val', repr(o))


def relayout(o, lay):
    """Deep copy of the argument structure with every array in the requested memory layout."""
    if isinstance(o, np.ndarray):
        if lay == 'F':
            return np.asfortranarray(o.copy())
        if lay == 'C':
            return np.ascontiguousarray(o.copy())
        if lay == 'view':
            if o.ndim == 0 or o.size == 0:
                return o.copy()
            big = np.zeros(o.shape[:-1] + (2 * o.shape[-1] + 1,), dtype=o.dtype)
            big[..., 1::2] = o
            return big[..., 1::2]
        if lay == 'ro':
            c = o.copy()
            c.setflags(write=False)
            return c
        if lay == 'tview':          # transposed view of a C array (F-like strides, not owning)
            return np.ascontiguousarray(o.T).T
        return o
    if isinstance(o, list):
        return [relayout(v, lay) for v in o]
    if isinstance(o, tuple):
        return tuple(relayout(v, lay) for v in o)
    if isinstance(o, dict):
        return {k: relayout(v, lay) for k, v in o.items()}
    return o


LAYOUTS = ['asbuilt', 'C', 'F', 'view', 'tview', 'ro']
