"""Replay of Rounding.tla cases (distinct-last-index family) through
teneva.truncate / svd / matrix_skeleton / matrix_svd / add_many."""
import json

import numpy as np

import teneva

from . import families as F
from . import tlc


def emit(ctx, cfg, what, workers=8):
    res = tlc.run('Rounding', cfg=cfg, workers=workers, timeout=3400)
    ctx.add_tlc(res, what)
    groups = {}
    for c in res.json:
        key = json.dumps([c['ent'], c['T'], c['cap'], c['dir']], sort_keys=True)
        g = groups.setdefault(key, dict(ent=c['ent'], T=c['T'], cap=c['cap'], dir=c['dir'], d=c['d'],
                                        npre=c['npre'], N=c['N'], minrank=c['minrank'], outcomes=[]))
        g['outcomes'].append(dict(ranks=c['ranks'], dropped=c['dropped'], live=c['live'],
                                  tie=c['tie'], capHit=c['capHit']))
    if not groups:
        raise tlc.TlcError('Rounding emitted no case (%s)' % cfg)
    return list(groups.values())


LAM = 2.0 ** -60      # physical size of the unit tier when a case uses the tier encoding (energies >= 1000 are "tier 0")


def set_lam(v):
    """Physical size of the unit tier (energy ratio).  2^-60 puts thresholds at relative size 1e-9; 2^-80 at 1e-12,
    which with a data scale of 1e-6 asks for accuracies below the machine epsilon in absolute terms."""
    global LAM
    LAM = v


def tiered(case):
    return any(e['en'] >= 1000 for e in case['ent'])


def phys(x, case):
    """decode a model energy (entry energy, total, dropped energy, budget) into the physical one"""
    if not tiered(case):
        return float(x)
    return float(x // 1000) + float(x % 1000) * LAM


def phys_ent(case):
    return [dict(pre=e['pre'], en=phys(e['en'], case)) for e in case['ent']]


def input_ranks(case):
    d = case['d']
    return [len({tuple(e['pre'][:b]) for e in case['ent']}) for b in range(1, d)]


def judge(case, rz, err2, Zd, n, Qs, scale, budget_total, what):
    """Compare the code's (ranks, err^2, dense result) with the model outcomes.
    Returns None if conforming, else a message."""
    outs = case['outcomes']
    N = phys(case['N'], case) * scale * scale
    cap = case['cap']
    unit = (LAM if tiered(case) else 1.) * scale * scale
    tol = 1e-4 * unit + 1e-300
    inr = input_ranks(case)
    if any(not (1 <= a <= max(1, cap)) for a in rz):
        return '%s: rank outside [1, max(1,cap)]: %s cap=%s' % (what, rz, cap)
    if any(a > b for a, b in zip(rz, inr)):
        return '%s: rank above input rank: %s > %s' % (what, rz, inr)
    if any(a > b for a, b in zip(rz, case['minrank'])):
        return '%s: ranks %s above the smallest ranks meeting the per-unfolding budget on the input %s' % (what, rz, case['minrank'])
    any_tie = any(o['tie'] for o in outs)
    if tiered(case) and any(o['capHit'] for o in outs):
        # a binding cap cuts between tier-0 groups whose energies differ only at relative size 2^-60: numerically a tie
        any_tie = True
    if not any_tie:
        o = outs[0]
        if rz != o['ranks']:
            return '%s: ranks %s, specification %s (cap-limited=%s)' % (what, rz, o['ranks'], o['capHit'])
        dphys = phys(o['dropped'], case) * scale * scale
        # the measured error carries the rounding of the (possibly 1e12 times larger) kept part: noise nz in norm
        nz = 32 * np.finfo(float).eps * np.sqrt(N)
        slack = 2 * np.sqrt(dphys) * nz + nz * nz
        if slack > 0.25 * unit:
            slack = 0.25 * unit      # decisions are in whole units: a quarter of a unit still separates the outcomes
        if abs(err2 - dphys) > tol + 1e-9 * dphys + slack:
            return '%s: err^2 %.6g, specification %.6g' % (what, err2, dphys)
        E = F.survivors_dense(n, phys_ent(case), o['live'], Qs, scale)
        # unit-tier entries have amplitude sqrt(LAM): present / absent is decided far above the rounding of the tier-0 part
        if np.abs(E - Zd).max() > (max(1e-3 * np.sqrt(LAM), 64 * np.finfo(float).eps * np.sqrt(phys(case['N'], case))) if tiered(case) else 1e-9 * np.sqrt(phys(case['N'], case))) * scale:
            return '%s: result differs from the surviving entries by %.3g' % (what, np.abs(E - Zd).max())
        return None
    # a tie straddles a cut: the truncated SVD is not unique; inequalities only
    if not any(o['capHit'] for o in outs) and budget_total is not None:
        if err2 > budget_total * (1 + 1e-9) + tol:
            return '%s (tie): err^2 %.6g above the bound %.6g' % (what, err2, budget_total)
    return None


def near_symmetric(case, rng, exact=False):
    """A d = 2 member whose n x n unfolding is symmetric up to a relative perturbation of ~1e-6 (returns None if the
    case has no such relative): the last index is re-labelled so that two entries of equal energy become mirror images
    (a symmetry of the family), and every amplitude is perturbed by (1 + eta_t), |eta_t| <= 3 * 2^-22.  Decisions of the
    model are unchanged (integer energies); replayed with the same rotation on both modes."""
    ent = case['ent']
    n = len(ent)
    if case['d'] != 2 or case['npre'] != n or tiered(case) or len({tuple(e['pre']) for e in ent}) != n:
        return None
    pairs = [(t, u) for t in range(n) for u in range(t + 1, n) if ent[t]['en'] == ent[u]['en'] and ent[t]['en'] > 0]
    if not pairs:
        return None
    t0, u0 = pairs[int(rng.integers(len(pairs)))]
    tau = {t: t for t in range(n)}
    tau[t0], tau[u0] = u0, t0
    c = {t: int(ent[tau[t]]['pre'][0]) for t in range(n)}            # new last index of entry t
    etas = rng.permutation([1, -1, 2, -2, 3, -3, 0, 0][:max(n, 2)])[:n] * 2.0 ** -22
    if exact:
        etas = etas * 0.          # exactly symmetric (and indefinite: a mirrored pair has the eigenvalues +amp, -amp)
    new_ent = [None] * n
    for t in range(n):
        new_ent[c[t]] = dict(pre=ent[t]['pre'], en=float(ent[t]['en']) * (1 + etas[t]) ** 2)
    outs = [dict(o, live=[c[j - 1] + 1 for j in o['live']]) for o in case['outcomes']]
    return dict(case, ent=new_ent, outcomes=outs, N=float(sum(e['en'] for e in new_ent)) if not exact else case['N'], near_symmetric=True, symmetric_exact=bool(exact))


def cap_arg(case, rng):
    """the cap as the caller may write it: an int, the same value as a float, or a real number with a fractional part
    (2.6, 3.5, 1.75 ...): every rank must still be at most the cap, so the fraction never buys an extra rank"""
    if case['cap'] == 99:
        return 1.E+12
    c = case['cap']
    return [c, float(c), c + 0.6, c + 0.5, c + 0.75, np.int64(c), c + 0.25][int(rng.integers(7))]


def replay_truncate(ctx, case, rng, is_eigh, use_stab, scale_pow=0, pad=False, order=None, outer=None):
    d = case['d']
    Y, n = F.family_member(d, case['npre'], phys_ent(case))
    shifts = None
    if use_stab and d >= 3 and outer is None and rng.random() < 0.35:
        # stabilised rounding exists for tensors whose single cores are far from the ordinary range: leading cores
        # huge, one later core below core_stab's threshold (zero-sum exponents, same dense tensor)
        j = int(rng.integers(1, d))
        a = int(rng.choice([200, 350])) if j > 1 else 350
        shifts = [a] * j + [-a * j] + [0] * (d - j - 1)
        if a * j > 450:          # squares of the tiny core (Gram matrices, norms) must stay representable: 2^-900
            shifts = None
    Y, Qs = F.apply_symmetries(Y, n, rng, pad=pad, scale_pow=scale_pow, order=order, core_shifts=shifts)
    scale = 2.0 ** scale_pow
    N, T = phys(case['N'], case), case['T']
    d_eff, u, c = d, None, 1.
    if outer is not None:
        # outer product with a vector c u (|u| = 1, c a power of two): one more mode behind a bond of rank one.  Every
        # unfolding inside Y keeps its spectrum (times c), the new unfolding has rank one, so the specified outcome is
        # the outcome of the case with the threshold e ||Y x cu|| / sqrt(d) and the result is Z x cu.
        nv = int(rng.integers(2, 5))
        u = rng.normal(size=nv)
        u /= np.linalg.norm(u)
        c = 2.0 ** int(rng.choice([0, 0, 12, -12, 40, -40]))
        core = (c * u).reshape(1, nv, 1)
        Y = (Y + [core]) if outer == 'right' else ([core] + Y)
        d_eff = d + 1
    if N == 0:
        e = 0.5
    else:
        e = float(np.sqrt((2 * T + 1) * (LAM if tiered(case) else 1.) * (d_eff - 1) / (2.0 * N)))
    cap = cap_arg(case, rng)
    Z = teneva.truncate(Y, e, cap, use_stab=use_stab, is_eigh=is_eigh)
    what = 'truncate(e=%.4g, r=%s, is_eigh=%s, use_stab=%s, 2^%d%s%s)' % (e, cap, is_eigh, use_stab, scale_pow, '' if shifts is None else ', core exponents %s' % shifts,
                                                                       '' if outer is None else ', outer product with a vector of norm %g on the %s' % (c, outer))
    n_eff = list(n) if outer is None else (list(n) + [len(u)] if outer == 'right' else [len(u)] + list(n))
    if not F.is_wellformed(Z, n_eff):
        return what + ': result is not a well-formed finite TT-tensor of the input shape'
    rz = [int(G.shape[2]) for G in Z[:-1]]
    Fd, Zd = F.dense(Y), F.dense(Z)
    err2 = float(np.linalg.norm(Zd - Fd) ** 2)
    if outer is not None:
        rj = rz.pop(-1 if outer == 'right' else 0)
        if rj != 1:
            return what + ': the bond of rank one to the vector has rank %d in the result' % rj
        ax = Zd.ndim - 1 if outer == 'right' else 0
        Zin = np.tensordot(Zd, u, axes=([ax], [0])) / c
        back = np.multiply.outer(Zin * c, u) if outer == 'right' else np.multiply.outer(u, Zin * c)
        if np.abs(back - Zd).max() > 1e-9 * np.sqrt(max(N, 1.)) * scale * c:
            return what + ': the result is not the outer product of a tensor with the vector (deviation %.3g)' % np.abs(back - Zd).max()
        Zd, err2 = Zin, err2 / (c * c)
    return judge(case, rz, err2, Zd, n, Qs, scale, e * e * N * scale * scale, what)


def replay_svd(ctx, case, rng, scale_pow=0):
    d = case['d']
    Y, n = F.family_member(d, case['npre'], phys_ent(case))
    Y, Qs = F.apply_symmetries(Y, n, rng, gauge=False, same_rot=bool(case.get('near_symmetric')))
    scale = 2.0 ** scale_pow
    Fd = F.dense(Y) * scale
    T = case['T']
    e = float(np.sqrt((T + 0.5) * (LAM if tiered(case) else 1.))) * scale
    cap = cap_arg(case, rng)
    Z = teneva.svd(np.array(Fd), e, cap)
    what = 'svd(e=%.4g, r=%s, scale 2^%d%s)' % (e, cap, scale_pow, ', nearly symmetric unfolding' if case.get('near_symmetric') else '')
    if not F.is_wellformed(Z, n):
        return what + ': result is not a well-formed finite TT-tensor of the input shape'
    rz = [int(G.shape[2]) for G in Z[:-1]]
    Zd = F.dense(Z)
    err2 = float(np.linalg.norm(Zd - Fd) ** 2)
    return judge(case, rz, err2, Zd, n, Qs, scale, (d - 1) * e * e, what)


def replay_matrix(ctx, case, rng, fn, give_to=None, scale_pow=0):
    """d = 2 cases through matrix_skeleton (give_to l/m/r, rel) and matrix_svd."""
    Y, n = F.family_member(2, case['npre'], phys_ent(case))
    Y, Qs = F.apply_symmetries(Y, n, rng, gauge=False, same_rot=bool(case.get('near_symmetric')))
    scale = 2.0 ** scale_pow
    A = F.dense(Y) * scale
    if rng.random() < 0.5:
        A = np.asfortranarray(A)
    T = case['T']
    rel = case['dir'] == 'rel'
    e = float(np.sqrt((T + 0.5) / 8.0)) if rel else float(np.sqrt((T + 0.5) * (LAM if tiered(case) else 1.))) * scale
    cap = cap_arg(case, rng)
    transpose = False
    if fn == 'skeleton':
        herm = bool(case.get('symmetric_exact')) and rng.random() < 0.7       # the documented flag for symmetric input: same factorisation contract
        U, V = teneva.matrix_skeleton(np.array(A), e, cap, rel=rel, give_to=give_to, hermitian=True) if herm else teneva.matrix_skeleton(np.array(A), e, cap, rel=rel, give_to=give_to)
        what = 'matrix_skeleton(e=%.4g, r=%s, rel=%s, give_to=%s, 2^%d%s)' % (e, cap, rel, give_to, scale_pow, ', hermitian=True on a symmetric indefinite matrix' if herm else '')
    else:
        if rng.random() < 0.5:      # wide and tall inputs take different branches
            transpose = True
            V_, U_ = teneva.matrix_svd(np.array(A.T), e, cap)
            U, V = U_.T, V_.T
        else:
            U, V = teneva.matrix_svd(np.array(A), e, cap)
        what = 'matrix_svd(e=%.4g, r=%s, transposed=%s, 2^%d)' % (e, cap, transpose, scale_pow)
    if not (U.ndim == 2 and V.ndim == 2 and U.shape[1] == V.shape[0] and U.shape[0] == A.shape[0]
            and V.shape[1] == A.shape[1] and np.isfinite(U).all() and np.isfinite(V).all()):
        return what + ': factors are not finite matrices of matching shapes'
    q = int(U.shape[1])
    Zd = U @ V
    err2 = float(np.linalg.norm(Zd - A) ** 2)
    budget = None if rel else e * e
    msg = judge(case, [q], err2, Zd, n, Qs, scale, budget, what)
    if msg is None and fn == 'skeleton' and not any(o['tie'] for o in case['outcomes']):
        # how the singular values are distributed between the factors
        gu = np.linalg.norm(U.T @ U - np.diag(np.diag(U.T @ U)))
        gv = np.linalg.norm(V @ V.T - np.diag(np.diag(V @ V.T)))
        s = np.sqrt(sorted([g for g in _group_energies(case)], reverse=True)[:q]) * scale
        du, dv = np.sqrt(np.diag(U.T @ U)), np.sqrt(np.diag(V @ V.T))
        exp_u = {'l': s, 'm': np.sqrt(s), 'r': np.ones(q)}[give_to]
        exp_v = {'l': np.ones(q), 'm': np.sqrt(s), 'r': s}[give_to]
        tol = 1e-8 * max(1., float(s.max()))
        if gu > tol * max(1., float(s.max())) or gv > tol * max(1., float(s.max())) or np.abs(du - exp_u).max() > tol or np.abs(dv - exp_v).max() > tol:
            return what + ': singular values not distributed as requested (column norms %s, row norms %s, expected %s / %s)' % (
                du, dv, exp_u, exp_v)
    return msg


def _group_energies(case):
    en = {}
    for e in phys_ent(case):
        en[tuple(e['pre'][:1])] = en.get(tuple(e['pre'][:1]), 0) + e['en']
    return list(en.values())
