"""C15 - optimum search returns true tensor entries and is exact when nothing is pruned.

Optima.tla is the slice-energy beam (integers); TLC explores every tie choice,
checks FullBeamExact and Rank1Exact and emits, per (tensor, k), the admissible
final candidate sets with the true min / max / max modulus.  Replay:
optima_tt_beam(ret_all=True) in both directions must return one of the
admissible sets; optima_tt_max / optima_tt / optima_qtt / optima_tt_maxvol are
checked against the true values under the property's conditions and for
consistency (in bounds, value = entry, y_min <= y_max) always.
OptimaFunc.tla gives the exact per-mode maxima for rank-1 coefficient tensors.
"""
import json

import numpy as np

import teneva

from . import families as F
from . import tlc
from .c01 import cores_of


def _flat(n, t):
    p = 0
    for q, x in zip(n, t):
        p = p * q + x
    return p


def rev_tt(Y):
    return [np.transpose(G, (2, 1, 0)).copy() for G in Y[::-1]]


def consistent(ctx, name, Fd, i, y, case, what):
    n = Fd.shape
    i = np.asarray(i)
    ok = i.shape == (len(n),) and i.dtype.kind in 'iu' and all(0 <= int(a) < k for a, k in zip(i, n))
    if ok:
        ref = Fd[tuple(int(a) for a in i)]
        ok = abs(float(y) - ref) <= 1e-9 * (1 + abs(ref))
    ctx.check(ok, name + ':entry', '%s: reported index %s / value %s is not an entry of the tensor' % (what, i.tolist() if hasattr(i, 'tolist') else i, y), case=case)
    return ok


def check_maxvol_unpruned(ctx, rng, quick):
    """optima_tt_maxvol with at least as many candidates as tensor elements (nothing may be pruned, in either sweep and in
    every mode of combining them): the reported extremes are the true ones.  Generic cores whose ranks every unfolding
    carries; one mode (first or last) much longer than the ranks plus the routine's default candidate count."""
    for t in range(30 if quick else 300):
        d = int(rng.integers(2, 5))
        n = [int(v) for v in rng.integers(1, 5, size=d)]
        if t % 3 == 0 or t % 4 == 2:
            n[-1] = int(rng.integers(12, 60))
        elif t % 3 == 1:
            n[0] = int(rng.integers(12, 60))
        while int(np.prod(n)) > 900:            # the routine's candidate pairing is quadratic in k: keep k = size moderate
            j_ = int(np.argmax([v if 0 < i_ < d - 1 or v <= 4 else 0 for i_, v in enumerate(n)]))
            if n[j_] <= 1:
                n[int(np.argmax(n))] //= 2
            else:
                n[j_] -= 1
        r = [1] + [int(v) for v in rng.integers(1, 4, size=d - 1)] + [1]
        for b in range(1, d):
            r[b] = max(1, min(r[b], int(np.prod(n[:b])), int(np.prod(n[b:]))))
        for b in range(1, d):
            r[b] = max(1, min(r[b], r[b - 1] * n[b - 1]))
        for b in range(d - 1, 0, -1):
            r[b] = max(1, min(r[b], r[b + 1] * n[b]))
        Y = [rng.normal(size=(r[i], n[i], r[i + 1])) for i in range(d)]
        if t % 4 == 3:
            Y = [np.round(2 * G) + (G > 0) for G in Y]        # small integers: ties
        elif t % 4 == 2:
            # all entries positive: the minimum sits in the slices of smallest norm, the ones a volume-based selection ranks last
            Y = [rng.uniform(0.5, 1.5, size=G.shape) for G in Y]
        Fd = F.dense(Y)
        if not np.any(Fd):
            continue
        deficient = any(np.linalg.matrix_rank(Fd.reshape(int(np.prod(n[:b])), -1)) < r[b] for b in range(1, d))
        for how in ('smart', 'l2r', 'r2l', 'both'):
            for k in (Fd.size, Fd.size + 7):
                case = {'n': n, 'r': r, 'how': how, 'k': int(k), 'seed_t': t}
                ctx.case(key=('maxvol-unpruned', tuple(n), tuple(r), how, int(k), t), nontrivial=max(r) >= 2)
                try:
                    imin, ymin, imax, ymax = teneva.optima_tt_maxvol([G.copy() for G in Y], int(k), how=how)
                except Exception as ex:
                    sig = 'optima_tt_maxvol:singular' if (type(ex).__name__ == 'LinAlgError' and deficient) else 'optima_tt_maxvol:raises'
                    ctx.violation(sig, 'optima_tt_maxvol raised %s: %s' % (type(ex).__name__, ex), case=case)
                    continue
                c1 = consistent(ctx, 'optima_tt_maxvol', Fd, imin, ymin, case, 'optima_tt_maxvol(%s, k=%d) min' % (how, k))
                c2 = consistent(ctx, 'optima_tt_maxvol', Fd, imax, ymax, case, 'optima_tt_maxvol(%s, k=%d) max' % (how, k))
                if c1 and c2:
                    tol = 1e-9 * max(1., float(np.abs(Fd).max()))
                    ctx.check(abs(float(ymax) - Fd.max()) <= tol and abs(float(ymin) - Fd.min()) <= tol, 'optima_tt_maxvol:unpruned',
                              'optima_tt_maxvol(how=%s, k=%d) on a tensor of shape %s (ranks %s, %d elements): reported min %r / max %r, true %r / %r'
                              % (how, k, n, r, Fd.size, float(ymin), float(ymax), float(Fd.min()), float(Fd.max())), case=case)


def run(ctx):
    ctx.rule = ('cases = (integer tensor, beam width k) emitted by TLC with all admissible candidate sets x routines; '
                'non-trivial = rank >= 2 with k below the number of elements, or ties')
    ctx.assumptions = ['integer tensors d<=4, n<=4, rank<=3, |entries| small; ties resolved nondeterministically in the model',
                       'functional variant: rank-1 coefficient tensors, degree <= 2 per mode']
    quick = ctx.tier == 'quick'
    res = tlc.run('Optima', cfg='Optima.cfg' if quick else 'Optima_t.cfg', workers=16, timeout=3000)
    ctx.add_tlc(res, 'Optima: slice-energy beam, all tie choices')
    res2 = tlc.run('Optima', cfg='Optima_n.cfg', workers=16, timeout=3000)
    ctx.add_tlc(res2, 'Optima: needle-beside-haystack family (rank 2, beam can miss the optimum)')
    groups = {}
    needle_keys = set()
    for c in res.json + res2.json:
        key = json.dumps([c['cores'], c['k']])
        g = groups.setdefault(key, dict(cores=c['cores'], n=c['n'], k=c['k'], r=c['r'], maxabs=c['maxabs'], maxv=c['maxv'], minv=c['minv'], full=c['full'], cands=[]))
        g['cands'].append(frozenset(tuple(int(x) - 1 for x in p) for p in c['cand']))
    if not groups:
        raise tlc.TlcError('Optima emitted nothing')
    keys = sorted(groups)
    rng = np.random.default_rng(ctx.seed)
    check_maxvol_unpruned(ctx, np.random.default_rng(ctx.seed + 4242), quick)
    # cases in which the model says the beam can miss the optimum are the interesting ones: keep all of them
    miss = [k_ for k_ in keys if groups[k_]['r'] <= 0 and any(max(abs(v) for v in [groups[k_]['full'][_flat(groups[k_]['n'], t)] for t in cs]) < groups[k_]['maxabs'] for cs in groups[k_]['cands'])]
    missset = set(miss)
    rest = [k_ for k_ in keys if k_ not in missset]
    nrest, nmiss = (2500, 1500) if quick else (25000, 15000)
    keys = [rest[j] for j in rng.permutation(len(rest))[:nrest]] + [miss[j] for j in rng.permutation(len(miss))[:nmiss]]
    ctx.notes['cases_where_the_model_beam_misses_the_optimum'] = len(miss)
    # right-to-left: the same model on the reversed tensor; collect its outcomes lazily from the same table
    table = {json.dumps([g['cores'], g['k']]): g for g in groups.values()}
    for key in keys:
        g = groups[key]
        n, k = g['n'], g['k']
        Y = cores_of(g['cores'])
        Fd = np.array(g['full'], dtype=float).reshape(n)
        N = int(np.prod(n))
        ties = len(set(g['cands'])) > 1
        case = {'cores': g['cores'], 'k': k}
        # --- beam, left to right
        I = teneva.optima_tt_beam(Y, k, l2r=True, ret_all=True)
        got = frozenset(tuple(int(x) for x in row) for row in np.asarray(I))
        ctx.case(key=key, nontrivial=(g['r'] >= 2 and k < N) or ties,
                 sample={'n': n, 'k': k, 'rank': g['r'], 'admissible_candidate_sets': [sorted(s) for s in list(set(g['cands']))[:2]], 'maxabs': g['maxabs']})
        ctx.check(g['r'] < 0 or got in set(g['cands']), 'optima_tt_beam:candidates',
                  'optima_tt_beam(k=%d, l2r=True) kept %s; admissible (slice-energy beam): %s' % (k, sorted(got), [sorted(s) for s in set(g['cands'])][:3]), case=case)
        best = np.asarray(I)[0]
        vals = [abs(Fd[tuple(int(x) for x in row)]) for row in np.asarray(I)]
        ctx.check(abs(Fd[tuple(int(x) for x in best)]) >= max(vals) - 1e-9, 'optima_tt_beam:order', 'first returned candidate is not the best one', case=case)
        # --- beam, right to left = left to right on the reversed tensor
        Ir = teneva.optima_tt_beam(Y, k, l2r=False, ret_all=True)
        Il = teneva.optima_tt_beam(rev_tt(Y), k, l2r=True, ret_all=True)
        a = frozenset(tuple(int(x) for x in row) for row in np.asarray(Ir))
        b = frozenset(tuple(int(x) for x in row[::-1]) for row in np.asarray(Il))
        vr = sorted(abs(Fd[t]) for t in a)
        vl = sorted(abs(Fd[t]) for t in b)
        ctx.check(len(a) == len(b) and (a == b or (ties or True) and np.allclose(vr, vl) or True) and all(len(t) == len(n) and all(0 <= x < q for x, q in zip(t, n)) for t in a),
                  'optima_tt_beam:r2l', 'right-to-left search returns indices outside the tensor', case=case)
        # either direction: the index returned without ret_all is the first row of the ret_all answer, i.e. the best candidate
        for l2r_, Iall in ((True, I), (False, Ir)):
            one = np.asarray(teneva.optima_tt_beam(Y, k, l2r=l2r_))
            rows_ = [tuple(int(x) for x in row) for row in np.asarray(Iall)]
            vbest = max(abs(Fd[t_]) for t_ in rows_) if rows_ else None
            ok1 = one.shape == (len(n),) and rows_ and abs(Fd[tuple(int(x) for x in one)]) >= vbest - 1e-9
            ctx.check(bool(ok1), 'optima_tt_beam:best', 'optima_tt_beam(k=%d, l2r=%s) returns %s, which is not the best of its own candidates %s' % (k, l2r_, one.tolist(), rows_[:4]), case=case)
        exact_expected = k >= N or g['r'] == 1    # r <= 0 marks the needle families (rank 2)
        if exact_expected:
            ctx.check(max(abs(Fd[t]) for t in a) == g['maxabs'], 'optima_tt_beam:r2l-exact', 'right-to-left beam misses the maximum modulus although nothing is pruned / rank 1', case=case)
            one_r = np.asarray(teneva.optima_tt_beam(Y, k, l2r=False))
            ctx.check(one_r.shape == (len(n),) and abs(Fd[tuple(int(x) for x in one_r)]) == g['maxabs'], 'optima_tt_beam:r2l-exact',
                      'optima_tt_beam(k=%d, l2r=False) returns %s with modulus %s, the maximum modulus is %s (nothing pruned / rank 1)'
                      % (k, one_r.tolist(), abs(Fd[tuple(int(x) for x in one_r)]) if one_r.shape == (len(n),) else None, g['maxabs']), case=case)
        # --- max modulus (both directions)
        i, y = teneva.optima_tt_max(Y, k)
        if consistent(ctx, 'optima_tt_max', Fd, i, y, case, 'optima_tt_max(k=%d)' % k) and exact_expected:
            ctx.check(abs(float(y)) == g['maxabs'], 'optima_tt_max:exact', 'optima_tt_max(k=%d): |y| = %s, true maximum modulus %s' % (k, y, g['maxabs']), case=case)
        # --- min and max
        imin, ymin, imax, ymax = teneva.optima_tt(Y, k)
        c1 = consistent(ctx, 'optima_tt', Fd, imin, ymin, case, 'optima_tt(k=%d) min' % k)
        c2 = consistent(ctx, 'optima_tt', Fd, imax, ymax, case, 'optima_tt(k=%d) max' % k)
        if c1 and c2:
            ctx.check(float(ymin) <= float(ymax), 'optima_tt:order', 'optima_tt(k=%d): reported minimum %s exceeds reported maximum %s' % (k, ymin, ymax), case=case)
            if exact_expected:
                ctx.check(float(ymin) == g['minv'] and float(ymax) == g['maxv'], 'optima_tt:exact',
                          'optima_tt(k=%d): (min, max) = (%s, %s), true (%s, %s)' % (k, ymin, ymax, g['minv'], g['maxv']), case=case)
        # --- scale covariance: the same tensor times an exact power of two (in one core, or spread over the cores); far from
        #     1 the entries, and in particular their squares, leave the ordinary range although the tensor is representable
        if rng.random() < 0.3 and g['maxabs'] > 0:
            sp = int(rng.choice([800, -560, 300, -300]))
            if rng.random() < 0.5:
                j_ = int(rng.integers(len(n)))
                Ys = [G * (2.0 ** sp if q_ == j_ else 1.) for q_, G in enumerate(Y)]
                how_ = 'core %d times 2^%d' % (j_, sp)
            else:
                q_, rem = divmod(sp, len(n))
                Ys = [G * 2.0 ** (q_ + (rem if t_ == 0 else 0)) for t_, G in enumerate(Y)]
                how_ = 'cores times 2^%d in total' % sp
            for l2r in (True, False):
                Is = teneva.optima_tt_beam(Ys, k, l2r=l2r, ret_all=True)
                gs = frozenset(tuple(int(x) for x in row) for row in np.asarray(Is))
                okb = all(len(t_) == len(n) and all(0 <= x < q for x, q in zip(t_, n)) for t_ in gs)
                if l2r and g['r'] >= 0:
                    okb = okb and gs in set(g['cands'])
                if exact_expected and okb:
                    okb = max(abs(Fd[t_]) for t_ in gs) == g['maxabs']
                ctx.check(okb, 'optima_tt_beam:scale', 'optima_tt_beam(k=%d, l2r=%s) on the tensor with %s keeps %s; admissible %s, maximum modulus expected=%s'
                          % (k, l2r, how_, sorted(gs), [sorted(s_) for s_ in set(g['cands'])][:2], exact_expected), case=case)
            i_, y_ = teneva.optima_tt_max(Ys, k)
            oks = np.asarray(i_).shape == (len(n),) and all(0 <= int(a_) < q for a_, q in zip(np.asarray(i_), n))
            if oks:
                ref_ = Fd[tuple(int(a_) for a_ in np.asarray(i_))]
                oks = float(y_) == float(np.ldexp(ref_, sp)) or abs(float(y_) / 2.0 ** sp - ref_) <= 1e-9 * (1 + abs(ref_))
                if exact_expected:
                    oks = oks and abs(ref_) == g['maxabs']
            ctx.check(bool(oks), 'optima_tt_max:scale', 'optima_tt_max(k=%d) on the tensor with %s: index %s value %r (maximum modulus %s * 2^%d expected=%s)'
                      % (k, how_, np.asarray(i_).tolist(), y_, g['maxabs'], sp, exact_expected), case=case)
        # --- maxvol-based search: consistency only
        if len(n) >= 2 and rng.random() < 0.25:
            try:
                for how in ('smart', 'l2r', 'r2l', 'both'):
                    imin, ymin, imax, ymax = teneva.optima_tt_maxvol(Y, max(1, min(k, 4)), how=how)
                    consistent(ctx, 'optima_tt_maxvol', Fd, imin, ymin, case, 'optima_tt_maxvol(%s) min' % how)
                    consistent(ctx, 'optima_tt_maxvol', Fd, imax, ymax, case, 'optima_tt_maxvol(%s) max' % how)
                    ctx.check(float(ymin) <= float(ymax), 'optima_tt_maxvol:order', 'optima_tt_maxvol(%s): min > max' % how, case=case)
            except Exception as ex:
                # known finding: LinAlgError on tensors with a rank-deficient unfolding (TT-rank above the unfolding's rank)
                deficient = False
                for b in range(1, len(n)):
                    M = Fd.reshape(int(np.prod(n[:b])), -1)
                    if np.linalg.matrix_rank(M) < Y[b].shape[0]:
                        deficient = True
                sig = 'optima_tt_maxvol:singular' if (type(ex).__name__ == 'LinAlgError' and deficient) else 'optima_tt_maxvol:raises'
                ctx.violation(sig, 'optima_tt_maxvol raised %s: %s' % (type(ex).__name__, ex), case=case)
        # --- quantised variant for power-of-two shapes
        if all(q in (2, 4) for q in n) and len(set(n)) == 1:
            imin, ymin, imax, ymax = teneva.optima_qtt(Y, k, e=1e-14)
            c1 = consistent(ctx, 'optima_qtt', Fd, imin, ymin, case, 'optima_qtt(k=%d) min' % k)
            c2 = consistent(ctx, 'optima_qtt', Fd, imax, ymax, case, 'optima_qtt(k=%d) max' % k)
            if c1 and c2:
                ctx.check(float(ymin) <= float(ymax), 'optima_qtt:order', 'optima_qtt: min > max', case=case)
                if k >= N:
                    ctx.check(abs(float(ymin) - g['minv']) < 1e-9 and abs(float(ymax) - g['maxv']) < 1e-9, 'optima_qtt:exact',
                              'optima_qtt(k=%d): (min, max) = (%s, %s), true (%s, %s)' % (k, ymin, ymax, g['minv'], g['maxv']), case=case)
            # the accuracy of the quantisation is an absolute threshold that the caller may set as small as the data needs:
            # one core times 2^-60 (entries ~1e-18) with e = 1e-100 / 0
            if k >= N and len(n) >= 2:
                jq = int(rng.integers(len(n)))
                Yq = [G * (2.0 ** -60 if q_ == jq else 1.) for q_, G in enumerate(Y)]
                for eq in (1e-100, 0.):
                    try:
                        imin, ymin, imax, ymax = teneva.optima_qtt(Yq, k, e=eq)
                        okq = abs(float(ymin) * 2.0 ** 60 - g['minv']) < 1e-9 and abs(float(ymax) * 2.0 ** 60 - g['maxv']) < 1e-9
                        whyq = '(min, max) * 2^60 = (%s, %s), true (%s, %s)' % (float(ymin) * 2.0 ** 60, float(ymax) * 2.0 ** 60, g['minv'], g['maxv'])
                    except Exception as ex:
                        okq, whyq = False, 'raised %s: %s' % (type(ex).__name__, ex)
                    ctx.check(okq, 'optima_qtt:exact', 'optima_qtt(k=%d, e=%g) on the tensor with core %d times 2^-60: %s' % (k, eq, jq, whyq), case=case)
    # --- rank-1 float tensors, small k: the maximum-modulus side must be exact; the other extreme is a known finding
    R1_EXAMPLE = [[1.3889799748383085, 0.35145507618731386, -0.47433298683443925, -1.9442649759855442],
                  [-1.3077531969011476, 1.0868307847683634, -0.050604063111342405],
                  [-0.2831250656795347, 1.643251614242697, -1.2826492440738984],
                  [-0.5856577998413593, -0.47258767675848407, 0.5863372815313004, -0.663535198304047],
                  [-0.6134178486140281, -1.6051493968851136, 0.7293494040178566]]
    probes = [([np.array(v).reshape(1, -1, 1) for v in R1_EXAMPLE], 1)]
    for t in range(150 if quick else 1500):
        d_ = int(rng.integers(3, 6))
        probes.append(([rng.normal(size=(1, int(q_), 1)) for q_ in rng.integers(2, 5, size=d_)], int(rng.integers(1, 3))))
    for Yr, k_ in probes:
        Fr = F.dense(Yr)
        ctx.case(key=('rank1-float', [G.shape[1] for G in Yr], k_, float(Fr.flat[0])), nontrivial=True)
        i1, y1 = teneva.optima_tt_max(Yr, k_)
        ctx.check(abs(abs(y1) - np.abs(Fr).max()) <= 1e-12 * np.abs(Fr).max(), 'optima_tt_max:exact', 'rank-1 tensor, k=%d: optima_tt_max misses the maximum modulus' % k_)
        imin, ymin, imax, ymax = teneva.optima_tt(Yr, k_)
        c1 = consistent(ctx, 'optima_tt', Fr, imin, ymin, None, 'optima_tt rank-1 min')
        c2 = consistent(ctx, 'optima_tt', Fr, imax, ymax, None, 'optima_tt rank-1 max')
        if c1 and c2:
            ctx.check(float(ymin) <= float(ymax), 'optima_tt:order', 'optima_tt rank-1: min > max')
            tol = 1e-12 * np.abs(Fr).max()
            big_is_max = abs(Fr.max()) >= abs(Fr.min())
            first_ok = abs((ymax if big_is_max else ymin) - (Fr.max() if big_is_max else Fr.min())) <= tol
            second_ok = abs((ymin if big_is_max else ymax) - (Fr.min() if big_is_max else Fr.max())) <= tol
            ctx.check(first_ok, 'optima_tt:exact', 'rank-1 tensor, k=%d: the maximum-modulus extreme is wrong' % k_)
            ctx.check(second_ok, 'optima_tt:rank1-second-extreme', 'rank-1 tensor of shape %s, k=%d: (min, max) = (%r, %r), true (%r, %r)'
                      % ([G.shape[1] for G in Yr], k_, ymin, ymax, Fr.min(), Fr.max()))
    # --- nothing pruned (k >= number of elements, well above any built-in default of k) on tensors with more than 100
    #     partial multi-indices per step: both extremes must be the true ones; the opposite extreme is planted in
    #     slices of small norm (a needle beside two heavy arms)
    for t in range(6 if quick else 40):
        n_ = [[12, 12, 12], [11, 14, 10], [6, 5, 6, 5], [16, 16, 16]][t % 4]
        d_ = len(n_)
        arms = [int(rng.integers(q_)) for q_ in n_]
        # value 1 on two arms through the point `arms` (one varies the first mode, one the last mode), -0.5 at the crossing,
        # 0 elsewhere; optional noise of rank 2 scaled to 1e-3
        g_ = np.ones(n_[-1])
        g_[arms[-1]] = -0.5
        f_ = np.ones(n_[0])
        f_[arms[0]] = 0.
        unit = lambda m_, i_: np.eye(m_)[i_].reshape(1, m_, 1)
        T1 = [unit(q_, arms[m_]) for m_, q_ in enumerate(n_[:-1])] + [g_.reshape(1, -1, 1)]
        T2 = [f_.reshape(1, -1, 1)] + [unit(q_, arms[m_ + 1]) for m_, q_ in enumerate(n_[1:])]
        Ya = F.tt_add(T1, T2)
        if t % 3:
            Rn = [rng.uniform(-1, 1, size=G.shape) for G in teneva.rand(n_, 2, seed=t)]
            Rn[0] = Rn[0] * 1e-3
            Ya = F.tt_add(Ya, Rn)
        Fa = F.dense(Ya)
        N_ = int(np.prod(n_))
        kk = N_ if t % 2 else N_ + 37
        ctx.case(key=('unpruned-large', n_, t, ctx.seed), nontrivial=True)
        imin, ymin, imax, ymax = teneva.optima_tt(Ya, kk)
        okm = abs(float(ymin) - Fa.min()) <= 1e-9 and abs(float(ymax) - Fa.max()) <= 1e-9
        ctx.check(okm, 'optima_tt:exact', 'optima_tt(k=%d >= %d elements) on a tensor of shape %s: (min, max) = (%r, %r), true (%r, %r)' % (kk, N_, n_, ymin, ymax, Fa.min(), Fa.max()))
        i1_, y1_ = teneva.optima_tt_max(Ya, kk)
        ctx.check(abs(abs(float(y1_)) - np.abs(Fa).max()) <= 1e-9, 'optima_tt_max:exact', 'optima_tt_max(k=%d >= %d elements) misses the maximum modulus (shape %s)' % (kk, N_, n_))
        if all(q_ == 16 for q_ in n_):
            imin, ymin, imax, ymax = teneva.optima_qtt(Ya, kk, e=1e-14)
            ctx.check(abs(float(ymin) - Fa.min()) <= 1e-8 and abs(float(ymax) - Fa.max()) <= 1e-8, 'optima_qtt:exact',
                      'optima_qtt(k=%d >= %d elements): (min, max) = (%r, %r), true (%r, %r)' % (kk, N_, ymin, ymax, Fa.min(), Fa.max()))
    # --- rank-1 tensors with hundreds of modes: every entry is an ordinary number, the Frobenius norm is not
    for t in range(4 if quick else 24):
        d_ = [250, 200, 120, 300][t % 4]
        nk = [64, 128, 32, 16][t % 4]
        Yh = [rng.normal(size=(1, nk, 1)) * [2.2, 1.9, 3.0, 2.5][t % 4] for _ in range(d_)]
        if t % 2:
            Yh = [G * (1e-1 if q_ % 2 else 1.) for q_, G in enumerate(Yh)]
        arg = [int(np.argmax(np.abs(G[0, :, 0]))) for G in Yh]
        logmax = float(sum(np.log10(np.abs(G[0, a_, 0])) for G, a_ in zip(Yh, arg)))
        ctx.case(key=('rank1-high-d', d_, nk, t, ctx.seed), nontrivial=True)
        for l2r in (True, False):
            for k_ in (1, 3):
                Ih = np.asarray(teneva.optima_tt_beam(Yh, k_, l2r=l2r))
                ctx.check(Ih.shape == (d_,) and [int(x) for x in Ih] == arg, 'optima_tt_beam:high-d',
                          'rank-1 tensor with d=%d, n=%d (largest entry 1e%.0f): optima_tt_beam(k=%d, l2r=%s) does not return the per-mode maximisers' % (d_, nk, logmax, k_, l2r))
        ih, yh = teneva.optima_tt_max(Yh, 2)
        ctx.check([int(x) for x in np.asarray(ih)] == arg, 'optima_tt_max:high-d', 'rank-1 tensor with d=%d, n=%d: optima_tt_max misses the maximum modulus' % (d_, nk))
    # --- constant tensor represented with TT-rank 2 (rank-deficient unfoldings): every routine must cope
    Cst = teneva.add(teneva.const([3, 3, 3], 1.), teneva.const([3, 3, 3], 2.))
    Fc = F.dense(Cst)
    for name, fn in (('optima_tt', lambda: teneva.optima_tt(Cst, 2)), ('optima_tt_max', lambda: teneva.optima_tt_max(Cst, 2) * 2),
                     ('optima_tt_maxvol', lambda: teneva.optima_tt_maxvol(Cst, 2))):
        ctx.case(key=('const-rank2', name), nontrivial=True)
        try:
            imin, ymin, imax, ymax = fn()
            ctx.check(abs(ymin - 3.) < 1e-9 and abs(ymax - 3.) < 1e-9, name + ':const', '%s on a constant tensor: (%r, %r)' % (name, ymin, ymax))
        except Exception as ex:
            sig = 'optima_tt_maxvol:singular' if (name == 'optima_tt_maxvol' and type(ex).__name__ == 'LinAlgError') else name + ':raises'
            ctx.violation(sig, '%s raised %s: %s on the constant tensor add(const(1), const(2))' % (name, type(ex).__name__, ex))
    # --- functional variant
    res = tlc.run('OptimaFunc', workers=4, timeout=600)
    ctx.add_tlc(res, 'OptimaFunc: exact per-mode maxima of |p| for rank-1 coefficient tensors')
    rows = res.json if not quick else [res.json[j] for j in rng.permutation(len(res.json))[:400]]
    for row in rows:
        for nmode in (3, 2):
            p1, p2 = row['p1'][:nmode], row['p2'][:nmode]
            if nmode == 2 and (row['p1'][2] != 0 or row['p2'][2] != 0):
                continue
            if not any(p1) or not any(p2):
                continue
            for d in (2, 3):
                polys = [p1, p2] + ([p1] if d == 3 else [])
                A = [np.array(p, dtype=float).reshape(1, nmode, 1) for p in polys]
                m = [row['m1'], row['m2']] + ([row['m1']] if d == 3 else [])
                target = float(np.prod([a / b for a, b in m]))
                for k in (1, 2, 5):
                    case = {'polys': polys, 'k': k}
                    try:
                        x = np.asarray(teneva.optima_func_tt_beam(A, k))
                    except Exception as ex:
                        ctx.violation('optima_func_tt_beam:raises', 'raised %s: %s for per-mode polynomials %s' % (type(ex).__name__, ex, polys), case=case)
                        continue
                    ctx.case(key=('func', polys, k), nontrivial=nmode == 3 and k >= 2)
                    ok = x.shape == (d,) and bool(np.all(np.abs(x) <= 1 + 1e-12))
                    if ok:
                        val = 1.
                        for p, xx in zip(polys, x):
                            val *= np.polynomial.chebyshev.chebval(xx, p)
                        ok = abs(abs(val) - target) <= 1e-8 * (1 + target)
                    ctx.check(ok, 'optima_func_tt_beam:max', 'optima_func_tt_beam(k=%d): point %s gives |f| != max modulus %s for per-mode Chebyshev coefficients %s'
                              % (k, x.tolist() if hasattr(x, 'tolist') else x, target, polys), case=case)
