"""C17 - QTT conversion and index maps are mutually inverse and value-preserving.

Qtt.tla: little-endian bit maps; TLC checks for every multi-index with q*d
bounded that ToQtt / FromQtt are mutually inverse (and onto for the smallest
cases) and emits the table, plus the rank bounds of the conversion for every
(r1, q, r2, cap).  Replay: ind_tt_to_qtt / ind_qtt_to_tt on every table row
(lists, arrays, single and batched, arguments compared with pristine copies);
tt_to_qtt of integer TT-tensors: entry at the bits of i = entry at i for all
i, inner bonds within the bounds, bonds between modes equal to the original
ranks, qtt_to_tt(tt_to_qtt(Y)) = Y; non-powers of two rejected.
"""
import itertools

import numpy as np

import teneva

from . import families as F
from . import tlc


def run(ctx):
    ctx.rule = ('cases = table rows (multi-index, bits) x input forms + integer tensors of shape [2^q]^d x caps; '
                'distinct = (d, q, index) / (tensor profile, cap, e); non-trivial = d >= 2 and q >= 2, or a binding cap')
    ctx.assumptions = ['integer TT-tensors with ranks <= 4, q <= 3, d <= 3; value claim at e = 1e-14 without cap',
                       'rank-1 / binding caps: only the rank contract and well-formedness are asserted']
    quick = ctx.tier == 'quick'
    res = tlc.run('Qtt', cfg='Qtt.cfg' if quick else 'Qtt_t.cfg', workers=8, timeout=3000)
    ctx.add_tlc(res, 'Qtt: bit maps mutually inverse for every multi-index; rank bounds')
    rng = np.random.default_rng(ctx.seed)
    table = {}
    bounds = {}
    for row in res.json:
        if row['d'] == 0:
            bounds[(row['idx'][0], row['q'], row['idx'][1], row['idx'][2])] = row['bits']
            continue
        d, q, idx, bits = row['d'], row['q'], row['idx'], row['bits']
        table.setdefault((d, q), []).append((idx, bits))
        n = 2 ** q
        ctx.case(key=('map', d, q, idx), nontrivial=d >= 2 and q >= 2)
        I_list = list(idx)
        I_arr = np.array(idx, dtype=int)
        keep = I_arr.copy()
        b1 = teneva.ind_tt_to_qtt(I_list, n)
        b2 = teneva.ind_tt_to_qtt(I_arr, n)
        ok = np.array_equal(b1, bits) and np.array_equal(b2, bits) and np.asarray(b1).shape == (d * q,) and np.array_equal(I_arr, keep)
        ctx.check(ok, 'ind_tt_to_qtt:single', 'ind_tt_to_qtt(%s, n=%d) = %s, little-endian bits %s (argument afterwards %s)' % (idx, n, np.asarray(b2).tolist(), bits, I_arr.tolist()), case=row)
        B_arr = np.array(bits, dtype=int)
        keepb = B_arr.copy()
        i1 = teneva.ind_qtt_to_tt(list(bits), q)
        i2 = teneva.ind_qtt_to_tt(B_arr, q)
        ok = np.array_equal(i1, idx) and np.array_equal(i2, idx) and np.asarray(i2).shape == (d,) and np.array_equal(B_arr, keepb)
        ctx.check(ok, 'ind_qtt_to_tt:single', 'ind_qtt_to_tt(%s, q=%d) = %s, expected %s' % (bits, q, np.asarray(i2).tolist(), idx), case=row)
        # a batch with exactly one row stays a batch
        b1 = np.asarray(teneva.ind_tt_to_qtt(np.array([idx], dtype=int), n))
        i1b = np.asarray(teneva.ind_qtt_to_tt(np.array([bits], dtype=int), q))
        ctx.check(b1.shape == (1, d * q) and i1b.shape == (1, d) and np.array_equal(b1[0], bits) and np.array_equal(i1b[0], idx), 'ind_maps:batch-of-one',
                  'a batch with one row is not mapped to a batch with one row: shapes %s / %s' % (b1.shape, i1b.shape), case=row)
    if not table:
        raise tlc.TlcError('Qtt emitted no table')
    for (d, q), rows in table.items():
        n = 2 ** q
        I = np.array([r_[0] for r_ in rows], dtype=int)
        B = np.array([r_[1] for r_ in rows], dtype=int)
        keepI, keepB = I.copy(), B.copy()
        Bq = teneva.ind_tt_to_qtt(I, n)
        back = teneva.ind_qtt_to_tt(Bq, q)
        ctx.case(key=('batch', d, q), nontrivial=True)
        ctx.check(np.array_equal(Bq, keepB) and np.array_equal(back, keepI) and np.array_equal(I, keepI), 'ind_maps:batch',
                  'batched maps are not the row-wise single maps / not inverse / modify their argument (d=%d, q=%d)' % (d, q))
        Iq = teneva.ind_qtt_to_tt(B, q)
        ctx.check(np.array_equal(Iq, keepI) and np.array_equal(B, keepB) and np.array_equal(teneva.ind_tt_to_qtt(Iq, n), keepB), 'ind_maps:batch', 'batched inverse direction wrong (d=%d, q=%d)' % (d, q))
        # value claim on integer tensors of this shape
        if d * q <= 9 and d >= 1:
            for rep in range(2 if quick else 6):
                r = int(rng.integers(1, 5))
                if d == 1:
                    # a single core is a TT-tensor too (d = 1): default arguments, explicit accuracies, every q
                    G1 = rng.integers(-2, 3, size=(1, n, 1)).astype(float)
                    ref1 = G1[0, :, 0]
                    for kw1 in ({}, dict(e=1e-12), dict(e=1e-14, r=100)):
                        ctx.case(key=('single-core', q, rep, repr(kw1)), nontrivial=q >= 2)
                        try:
                            Z1 = teneva.tt_to_qtt([G1], **kw1)
                        except Exception as ex:
                            ctx.violation('tt_to_qtt:raises', 'tt_to_qtt of a single-core tensor (q=%d, %s) raised %s: %s' % (q, kw1, type(ex).__name__, ex))
                            continue
                        ok1 = F.is_wellformed(Z1, [2] * q)
                        if ok1:
                            v1 = (F.dense(Z1) if q > 1 else Z1[0][0, :, 0])[tuple(keepB.T)] if q > 1 else Z1[0][0, :, 0][keepB[:, 0]]
                            ok1 = np.abs(v1 - ref1[keepI[:, 0]]).max() <= 1e-9 * (1 + np.abs(ref1).max())
                            W1 = teneva.qtt_to_tt(Z1, q)
                            ok1 = ok1 and len(W1) == 1 and np.abs(W1[0][0, :, 0] - ref1).max() <= 1e-9 * (1 + np.abs(ref1).max())
                        ctx.check(ok1, 'tt_to_qtt:value', 'single-core tensor (q=%d, %s): QTT entries at the bits of i differ from the entries at i, or the round trip fails' % (q, kw1))
                    continue
                rr = [1] + [int(x) for x in rng.integers(1, r + 1, size=d - 1)] + [1]
                Y = [rng.integers(-2, 3, size=(rr[k], n, rr[k + 1])).astype(float) for k in range(d)]
                Fd = F.dense(Y)
                # the same integer tensor in several presentations: float64 / int64 / int32 cores, an exact power of two in
                # one core or spread over the cores (entries ~1e-12 .. 1e+18), and unbalanced cores (1e-10 x 1e+10)
                # (presentation, cores, total exponent, smallest per-core exponent: the accuracy e acts on every core separately)
                pres = [('float64', Y, 0, 0), ('int64', [G.astype(np.int64) for G in Y], 0, 0), ('int32', [G.astype(np.int32) for G in Y], 0, 0),
                        ('core 0 times 2^-40', [G * (2.0 ** -40 if k_ == 0 else 1.) for k_, G in enumerate(Y)], -40, -40),
                        ('all cores times 2^%d' % (-36 // d), [G * 2.0 ** (-36 // d) for G in Y], (-36 // d) * d, -36 // d),
                        ('last core times 2^60', [G * (2.0 ** 60 if k_ == d - 1 else 1.) for k_, G in enumerate(Y)], 60, 0),
                        ('core 0 times 2^-33, core 1 times 2^33', [G * (2.0 ** -33 if k_ == 0 else 2.0 ** 33 if k_ == 1 else 1.) for k_, G in enumerate(Y)], 0, -33)]
                Yorig, Fd0 = Y, Fd
                for pname, Yp, sp, spmin in ([pres[0]] + [pres[1 + (rep + j_) % 6] for j_ in range(2 if quick else 6)]):
                    Fd = Fd0 * 2.0 ** sp
                    Y = Yp
                    try:
                        Z = teneva.tt_to_qtt(Y, e=1e-14 * 2.0 ** spmin, r=100)
                    except Exception as ex:
                        ctx.violation('tt_to_qtt:raises', 'tt_to_qtt on %s cores raised %s: %s' % (pname, type(ex).__name__, ex))
                        continue
                    okw = F.is_wellformed(Z, [2] * (d * q))
                    ctx.case(key=('value', d, q, rr, rep, pname), nontrivial=max(rr) >= 2)
                    if not ctx.check(okw, 'tt_to_qtt:wellformed', 'tt_to_qtt result malformed (d=%d q=%d ranks %s, %s)' % (d, q, rr, pname)):
                        continue
                    Zd = F.dense(Z)
                    vals = Zd[tuple(keepB.T)]
                    ref = Fd[tuple(keepI.T)]
                    ctx.check(np.abs(vals - ref).max() <= 1e-9 * (2.0 ** sp + np.abs(ref).max()), 'tt_to_qtt:value',
                              'entry of the QTT-tensor at the bits of i differs from the TT entry at i by %.2e (d=%d q=%d ranks %s, %s)' % (np.abs(vals - ref).max(), d, q, rr, pname))
                    zr = [1] + [G.shape[2] for G in Z]
                    ctx.check(all(zr[k * q] == rr[k] for k in range(d + 1)), 'tt_to_qtt:outer-bonds', 'bonds between modes %s differ from the TT-ranks %s (%s)' % ([zr[k * q] for k in range(d + 1)], rr, pname))
                    W = teneva.qtt_to_tt(Z, q)
                    ctx.check(F.is_wellformed(W, [n] * d) and np.abs(F.dense(W) - Fd).max() <= 1e-9 * (2.0 ** sp + np.abs(Fd).max()), 'qtt_to_tt:roundtrip', 'qtt_to_tt(tt_to_qtt(Y)) differs from Y (%s)' % pname)
                Y, Fd = Yorig, Fd0
                for cap in (1, 2, 3):
                    for e_ in (1e-12, 1e-2, 0.):          # e = 0 exactly is the default of the core-level routine
                        Zc = teneva.tt_to_qtt(Y, e=e_, r=cap)
                        if not ctx.check(F.is_wellformed(Zc, [2] * (d * q)), 'tt_to_qtt:wellformed', 'capped conversion malformed'):
                            continue
                        zc = [1] + [G.shape[2] for G in Zc]
                        okc = all(zc[k * q] == rr[k] for k in range(d + 1))
                        for k in range(d):
                            bd = bounds[(rr[k], q, rr[k + 1], cap)]
                            okc = okc and all(zc[k * q + j] <= bd[j - 1] for j in range(1, q))
                        ctx.check(okc, 'tt_to_qtt:ranks', 'tt_to_qtt(e=%g, r=%d): bonds %s violate the contract (TT-ranks %s, q=%d)' % (e_, cap, zc, rr, q))
    # the core-level pair called directly (middle cores: both outer ranks above one): slice of the core at i = product of
    # the QTT-core slices at the little-endian bits of i, inner bonds within the Qtt.tla bounds, outer ranks kept,
    # core_qtt_to_tt inverse to core_tt_to_qtt; the argument is left alone
    for q in (1, 2, 3) + (() if quick else (4,)):
        n = 2 ** q
        for (r1, r2) in ((2, 3), (3, 2), (1, 4), (4, 1), (3, 3), (1, 1)):
            G = rng.integers(-2, 3, size=(r1, n, r2)).astype(float)
            keepG = G.copy()
            for cap, e_ in ((100, 1e-14), (100, 0.), (1, 1e-12), (2, 1e-12), (2, 1e-2), (3, 1e-12), (1, 0.), (2, 0.), (3, 0.)):
                ctx.case(key=('core', q, r1, r2, cap, e_), nontrivial=q >= 2 and min(r1, r2) >= 2)
                try:
                    Q = teneva.core_tt_to_qtt(G, e_, cap)
                except Exception as ex:
                    ctx.violation('core_tt_to_qtt:raises', 'core_tt_to_qtt(core %dx%dx%d, e=%g, r=%d) raised %s: %s' % (r1, n, r2, e_, cap, type(ex).__name__, ex))
                    continue
                okc = isinstance(Q, list) and len(Q) == q and all(isinstance(x, np.ndarray) and x.ndim == 3 and x.shape[1] == 2 and np.isfinite(x).all() for x in Q)
                okc = okc and all(Q[k].shape[2] == Q[k + 1].shape[0] for k in range(q - 1)) and Q[0].shape[0] == r1 and Q[-1].shape[2] == r2
                okc = okc and np.array_equal(G, keepG)
                if not ctx.check(okc, 'core_tt_to_qtt:wellformed', 'core_tt_to_qtt(core %dx%dx%d, e=%g, r=%d): not a chain of q=%d cores r1 x 2 x .. x 2 x r2 with the outer ranks kept (shapes %s), or the argument changed'
                                 % (r1, n, r2, e_, cap, q, [getattr(x, 'shape', None) for x in Q] if isinstance(Q, list) else type(Q).__name__)):
                    continue
                if cap <= 3 and (r1, q, r2, cap) in bounds:
                    bd = bounds[(r1, q, r2, cap)]
                    ctx.check(all(Q[j - 1].shape[2] <= bd[j - 1] for j in range(1, q)), 'core_tt_to_qtt:ranks',
                              'core_tt_to_qtt(core %dx%dx%d, e=%g, r=%d): inner bonds %s exceed the bounds %s' % (r1, n, r2, e_, cap, [x.shape[2] for x in Q[:-1]], bd))
                if cap == 100:
                    dev_ = 0.
                    for i_ in range(n):
                        M = np.eye(r1)
                        for k_ in range(q):
                            M = M @ Q[k_][:, (i_ >> k_) & 1, :]
                        dev_ = max(dev_, np.abs(M - G[:, i_, :]).max())
                    ctx.check(dev_ <= 1e-9, 'core_tt_to_qtt:value', 'core %dx%dx%d (e=%g): slice i of the core differs from the product of the QTT-core slices at the little-endian bits of i by %.2e' % (r1, n, r2, e_, dev_))
                    keepQ = [x.copy() for x in Q]
                    Gb = teneva.core_qtt_to_tt(Q)
                    okb_ = isinstance(Gb, np.ndarray) and Gb.shape == (r1, n, r2) and np.abs(Gb - G).max() <= 1e-9 and all(np.array_equal(a_, b_) for a_, b_ in zip(Q, keepQ))
                    okb_ = okb_ and not any(np.shares_memory(Gb, x) for x in Q)
                    ctx.check(okb_, 'core_qtt_to_tt:roundtrip', 'core_qtt_to_tt(core_tt_to_qtt(G)) differs from G (core %dx%dx%d, e=%g), changes or aliases its argument' % (r1, n, r2, e_))
    # value claim one step beyond the tabulated scope: q = 6..10 (mode sizes 64..1024), d = 2, 3, ranks up to 6
    for q_, d_ in ((6, 3), (8, 2), (10, 2), (7, 3)) if quick else ((6, 3), (8, 2), (10, 2), (7, 3), (9, 2), (5, 4), (12, 2)):
        n_ = 1 << q_
        rr_ = [1] + [int(x) for x in rng.integers(2, 7, size=d_ - 1)] + [1]
        Yb = [rng.normal(size=(rr_[k], n_, rr_[k + 1])) for k in range(d_)]
        Zb = teneva.tt_to_qtt(Yb, e=1e-13, r=1000)
        Ib = np.stack([rng.integers(0, n_, size=60) for _ in range(d_)], axis=1)
        Bb = np.asarray(teneva.ind_tt_to_qtt(Ib, n_))
        ctx.case(key=('value-large', q_, d_, rr_), nontrivial=True)
        okb = F.is_wellformed(Zb, [2] * (q_ * d_))
        if okb:
            vb = np.asarray(teneva.get_many(Zb, Bb))
            rb = np.asarray(teneva.get_many(Yb, Ib))
            zr_ = [1] + [G.shape[2] for G in Zb]
            okb = np.abs(vb - rb).max() <= 1e-8 * (1 + np.abs(rb).max()) and all(zr_[k * q_] == rr_[k] for k in range(d_ + 1))
            Wb = teneva.qtt_to_tt(Zb, q_)
            okb = okb and F.is_wellformed(Wb, [n_] * d_) and np.abs(np.asarray(teneva.get_many(Wb, Ib)) - rb).max() <= 1e-8 * (1 + np.abs(rb).max())
        ctx.check(okb, 'tt_to_qtt:value', 'q = %d, d = %d, ranks %s: QTT entries at the bits of i differ from the entries at i, outer bonds changed, or the round trip fails' % (q_, d_, rr_))
    # the documented default cap (signature: e = 1e-12, r = 100) binds on tensors whose bit-unfoldings inside a mode have
    # rank above 100: leaving the arguments out is the same as naming them, and no inner bond exceeds the cap
    for q_, rk_ in ((10, 16),) if quick else ((10, 16), (10, 20), (11, 12)):
        n_ = 1 << q_
        Yd = [rng.normal(size=(1, n_, rk_)), rng.normal(size=(rk_, n_, 1))]
        Zdef = teneva.tt_to_qtt(Yd)
        Zexp = teneva.tt_to_qtt(Yd, 1e-12, 100)
        ctx.case(key=('default-cap', q_, rk_), nontrivial=True)
        okd = F.is_wellformed(Zdef, [2] * (2 * q_)) and F.is_wellformed(Zexp, [2] * (2 * q_))
        if okd:
            bd_ = [G.shape[2] for G in Zdef]
            inner = [bd_[j] for j in range(2 * q_ - 1) if (j + 1) % q_ != 0]
            okd = max(inner) <= 100 and bd_ == [G.shape[2] for G in Zexp] and all(np.array_equal(a_, b_) for a_, b_ in zip(Zdef, Zexp)) and bd_[q_ - 1] == rk_
            okd = okd and max(inner) == 100          # non-vacuity of the instance: the cap really binds
        ctx.check(okd, 'tt_to_qtt:default-cap', 'tt_to_qtt(Y) with the default arguments on shape [2^%d]*2, TT-rank %d: bonds %s; with e=1e-12, r=100 named: %s'
                  % (q_, rk_, [G.shape[2] for G in Zdef] if isinstance(Zdef, list) else None, [G.shape[2] for G in Zexp] if isinstance(Zexp, list) else None))
    # the index maps for quantisation levels far above the tabulated ones (q up to 62: every index below 2^62 is an int64)
    for q in (20, 31, 32, 40, 53, 54, 55, 60, 62):
        for d_ in (1, 2, 3):
            idxs = [[(1 << q) - 1] * d_, [0] * d_, [int(rng.integers(0, 1 << 62)) % (1 << q) for _ in range(d_)],
                    [(1 << (q - 1)) + 1] * d_, [((1 << q) - 1) ^ 1] * d_]
            I_ = np.array(idxs, dtype=np.int64)
            keep_ = I_.copy()
            B_ = np.asarray(teneva.ind_tt_to_qtt(I_, 1 << q))
            bits_ref = np.array([[(v >> k_) & 1 for v in row for k_ in range(q)] for row in idxs])
            ctx.case(key=('big-q', q, d_), nontrivial=q >= 54)
            okq = B_.shape == (len(idxs), d_ * q) and np.array_equal(B_, bits_ref) and np.array_equal(I_, keep_)
            back_ = np.asarray(teneva.ind_qtt_to_tt(bits_ref.copy(), q))
            okq = okq and back_.shape == (len(idxs), d_) and np.array_equal(back_.astype(object), np.array(idxs, dtype=object))
            one_ = np.asarray(teneva.ind_qtt_to_tt(bits_ref[0].copy(), q))
            okq = okq and one_.shape == (d_,) and [int(x) for x in one_] == idxs[0]
            ctx.check(okq, 'ind_maps:big-q', 'index maps at q = %d, d = %d are not the little-endian bit maps / not inverse to each other' % (q, d_))
    # mode sizes next to large powers of two are not powers of two (exact integer test, whatever the magnitude)
    for q in (10, 20, 31, 32, 40, 49, 50, 52, 53, 54, 60, 62):
        for off in (-1, 1, -2, 2, 3):
            nbad = (1 << q) + off
            raised = False
            try:
                teneva.ind_tt_to_qtt(np.array([[1, 0]]), nbad)
            except ValueError:
                raised = True
            except Exception as ex:
                raised = type(ex).__name__
            ctx.case(key=('reject-big', q, off), nontrivial=q >= 49)
            ctx.check(raised is True, 'ind_tt_to_qtt:reject', 'ind_tt_to_qtt(I, n = 2^%d%+d) must raise ValueError (got %s)' % (q, off, 'a result' if raised is False else raised))
    # non powers of two are rejected
    for n in (3, 5, 6, 12):
        raised = [False, False, False]
        try:
            teneva.ind_tt_to_qtt([1, 2], n)
        except ValueError:
            raised[0] = True
        try:
            teneva.tt_to_qtt(teneva.rand([n, n], 2, seed=1))
        except ValueError:
            raised[1] = True
        try:
            teneva.core_tt_to_qtt(np.ones((1, n, 2)))
        except ValueError:
            raised[2] = True
        ctx.case(key=('reject', n), nontrivial=True)
        ctx.check(all(raised), 'qtt:reject', 'mode size %d (not a power of two) is not rejected with ValueError: %s' % (n, raised))
