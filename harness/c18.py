"""C18 - grid index <-> point maps round-trip exactly and clamp to the box.

Grid.tla works in the grid parameter with exact rationals: nearest node(s)
for every node, for points +-1/8 of a cell around every cell boundary, for
exact midpoints (either neighbour) and for points outside the box (clamped);
scaling to [0, 1]; the flat-grid order; the empirical CDF as a right-continuous
step function; the Dvoretzky-Kiefer-Wolfowitz band around it (rational
half-width, clipping to [0, 1]).  Replay maps every parameter into many boxes (uniform grid:
affine; Chebyshev grid: through the cosine, mirror) and compares indices
exactly, points at 4 ulp of max(|a|, |b|).
"""
from fractions import Fraction

import numpy as np

import teneva

from . import tlc

BOXES = [(-1., 1.), (0., 1.), (0., 2.), (-3., 5.), (0.25, 0.75), (1000., 1001.), (-1.0e6 - 1., -1.0e6 + 3.), (2.0 ** -20, 2.0 ** -19), (-7., 0.),
         (-0.4, 2.0), (7.53, 8.21), (9.32, 14.99), (0.1, 0.3), (-1.7, -0.2)]      # incl. bounds that are not exactly representable


def ulp_close(x, y, a, b, k=4):
    return bool(np.all(np.abs(np.asarray(x) - np.asarray(y)) <= k * np.finfo(float).eps * max(abs(a), abs(b), abs(b - a))))


def run(ctx):
    ctx.rule = ('cases = (grid size, grid parameter) emitted by TLC x boxes x {uniform, Chebyshev} x {single point, batch, scalar / per-dimension options} '
                '+ flat grids + CDF queries; non-trivial = points off the nodes (near a boundary, at a midpoint, outside the box)')
    ctx.assumptions = ['boxes are float-exact with (b-a)/max(|a|,|b|,1) >= 2^-20', 'points compared at 4 ulp of max(|a|,|b|,b-a); indices exactly',
                       'Chebyshev points go through cos (mirror); the expected index is decided in the grid parameter by TLC']
    quick = ctx.tier == 'quick'
    res = tlc.run('Grid', cfg='Grid.cfg' if quick else 'Grid_t.cfg', workers=8, timeout=3000)
    ctx.add_tlc(res, 'Grid: nearest nodes in the grid parameter, flat order, CDF')
    rng = np.random.default_rng(ctx.seed)
    check_midpoint_neighbours(ctx, quick)
    for row in res.json:
        c, e = row['case'], row['exp']
        if c['kind'] == 'near':
            n = c['n']
            u = Fraction(c['u'][0], c['u'][1])
            idxs = set(e['idx'])
            on_node = (u * (n - 1)).denominator == 1 and 0 <= u <= 1
            for (a, b) in (BOXES if not quick else [BOXES[j] for j in rng.choice(len(BOXES), size=6, replace=False)]):
                for kind in ('uni', 'cheb'):
                    if kind == 'uni':
                        x = a + float(u) * (b - a)
                        want = idxs
                    else:
                        # grid parameter t = u: x = cos(pi t) (b-a)/2 + (a+b)/2 ; t outside [0, 1] means outside the box
                        if 0 <= u <= 1:
                            x = np.cos(np.pi * float(u)) * (b - a) / 2 + (b + a) / 2
                        else:
                            x = (b + (b - a) * 0.37) if u < 0 else (a - (b - a) * 0.37)
                        want = idxs
                    i1 = teneva.poi_to_ind(np.array([x, x]), a, b, n, kind)
                    ib = teneva.poi_to_ind(np.array([[x, x], [x, x]]), np.array([a, a]), np.array([b, b]), np.array([n, n]), kind)
                    ok = i1.shape == (2,) and ib.shape == (2, 2) and i1.dtype.kind in 'iu' and int(i1[0]) in want and len(set(ib.ravel().tolist()) | {int(i1[0]), int(i1[1])}) == 1
                    # the same bound objects (float / integer arrays per dimension) reused over several calls with one single point:
                    # every call answers as the first one and as the batch, and the caller's arrays are never written to
                    A_, B_, N_ = np.array([a, a]), np.array([b, b]), np.array([n, n])
                    hist = []
                    for rep_ in range(2):
                        hist.append(np.asarray(teneva.poi_to_ind(np.array([x, x]), A_, B_, N_, kind)).tolist())
                        teneva.poi_scale(np.array([x, x]), A_, B_, kind)
                        teneva.ind_to_poi(np.array([0, n - 1]), A_, B_, N_, kind)
                    ok_h = all(h == [int(i1[0]), int(i1[1])] for h in hist) and np.array_equal(A_, [a, a]) and np.array_equal(B_, [b, b]) and np.array_equal(N_, [n, n])
                    ctx.check(ok_h, 'grid:reused-bounds', 'poi_to_ind / poi_scale / ind_to_poi with the same array bounds reused for single points (x=%r, [%r, %r], n=%d, %s): answers %s vs %s, bounds afterwards %s %s %s'
                              % (x, a, b, n, kind, hist, i1.tolist(), A_, B_, N_), case=row)
                    ctx.case(key=('near', n, c['u'], a, b, kind), nontrivial=not on_node,
                             sample={'n': n, 'u': c['u'], 'box': [a, b], 'kind': kind, 'nearest': sorted(idxs)} if n == 5 and not on_node and a == -3. else None)
                    ctx.check(ok, 'poi_to_ind:' + kind, 'poi_to_ind(x=%r, [%r, %r], n=%d, %s) = %s (batch %s); nearest node(s) in the grid parameter: %s'
                              % (x, a, b, n, kind, i1.tolist(), ib.tolist(), sorted(want)), case=row)
                    if on_node:
                        i = int(u * (n - 1))
                        xi = teneva.ind_to_poi(np.array([i, i]), a, b, n, kind)
                        ref = x
                        ctx.check(ulp_close(xi, [ref, ref], a, b), 'ind_to_poi:' + kind, 'ind_to_poi(%d, [%r, %r], n=%d, %s) = %r, expected %r' % (i, a, b, n, kind, xi.tolist(), ref), case=row)
                        back = teneva.poi_to_ind(xi, a, b, n, kind)
                        ctx.check(back.tolist() == [i, i], 'roundtrip:' + kind, 'index %d -> point -> index gives %s (n=%d, box [%r, %r], %s)' % (i, back.tolist(), n, a, b, kind), case=row)
                        if i == 0:
                            ctx.check(ulp_close(xi[0], a if kind == 'uni' else b, a, b), 'ind_to_poi:end-' + kind, 'index 0 is not the %s bound' % ('lower' if kind == 'uni' else 'upper'), case=row)
                        if i == n - 1:
                            ctx.check(ulp_close(xi[0], b if kind == 'uni' else a, a, b), 'ind_to_poi:end-' + kind, 'index n-1 is not the other end of the box', case=row)
                    # scaling with clipping
                    if kind == 'uni':
                        s = teneva.poi_scale(np.array([x]), a, b, 'uni')
                        sc = float(Fraction(e['scaled'][0], e['scaled'][1]))
                        ctx.check(abs(s[0] - sc) <= 1e-9 and 0. <= s[0] <= 1., 'poi_scale:uni', 'poi_scale(%r, [%r, %r]) = %r, expected %r' % (x, a, b, s[0], sc), case=row)
                        s2 = teneva.poi_scale(np.array([x]), a, b, 'cheb')
                        ctx.check(abs(s2[0] - (2 * sc - 1)) <= 2e-9 and -1. <= s2[0] <= 1., 'poi_scale:cheb', 'poi_scale(cheb) wrong', case=row)
                        s3 = teneva.poi_scale(np.array([[x, x]]), a, b, [-2., 6.])
                        ctx.check(np.abs(s3 - (-2. + 8. * sc)).max() <= 1e-8 and s3.min() >= -2. and s3.max() <= 6., 'poi_scale:custom', 'poi_scale with custom limits wrong', case=row)
        elif c['kind'] == 'flat':
            I = teneva.grid_flat(c['shape'])
            ref = np.array(e['rows'], dtype=int)
            ctx.case(key=('flat', c['shape']), nontrivial=len(c['shape']) >= 2)
            ctx.check(I.shape == ref.shape and np.array_equal(I, ref), 'grid_flat:order', 'grid_flat(%s) does not enumerate the multi-indices with the first index fastest' % c['shape'], case=row)
            I2 = teneva.grid_flat(np.array(c['shape']))
            ctx.check(np.array_equal(I2, ref), 'grid_flat:array-arg', 'list and array arguments disagree', case=row)
        elif c['kind'] == 'band':
            # DKW band: alpha is chosen so that the routine's half-width sqrt(ln(2 / alpha) / (2 m)) is the specified rational
            m, eps = c['m'], c['eps'] / 64.
            alpha = 2. * np.exp(-2. * m * eps * eps)
            x = np.arange(1, m + 1) / m
            lo_ref = np.array([p / q for p, q in e['lo']]); hi_ref = np.array([p / q for p, q in e['hi']])
            ctx.case(key=('band', m, c['eps']), nontrivial=bool(lo_ref.min() == 0. or hi_ref.max() == 1.) and m > 1)
            for xs in (x, x.copy()[::-1][::-1], x.astype(np.float32).astype(float)):
                lo, hi = teneva.cdf_confidence(xs, alpha)
                lo = np.asarray(lo, dtype=float); hi = np.asarray(hi, dtype=float)
                ctx.check(lo.shape == (m,) and hi.shape == (m,) and np.abs(lo - lo_ref).max() <= 1e-6 * max(eps, 1e-3) + 1e-7 * (xs is not x) and np.abs(hi - hi_ref).max() <= 1e-6 * max(eps, 1e-3) + 1e-7 * (xs is not x),
                          'cdf_confidence:band', 'cdf_confidence(k/m for m=%d, alpha=%.6g): band (%s, %s) differs from the clipped band of half-width %g' % (m, alpha, lo, hi, eps), case=row)
                ctx.check(bool(np.all(lo >= 0.) and np.all(hi <= 1.) and np.all(lo <= xs + 1e-15) and np.all(xs <= hi + 1e-15)), 'cdf_confidence:contains',
                          'the band leaves [0, 1] or does not contain the empirical CDF', case=row)
            # default alpha = 0.05 : half-width from the formula, for the same sample
            lo, hi = teneva.cdf_confidence(x)
            e05 = float(np.sqrt(np.log(40.) / (2 * m)))
            ctx.check(np.abs(np.asarray(lo) - np.clip(x - e05, 0, 1)).max() <= 1e-12 and np.abs(np.asarray(hi) - np.clip(x + e05, 0, 1)).max() <= 1e-12, 'cdf_confidence:default',
                      'default alpha is not 0.05 (m=%d)' % m, case=row)
        else:
            f = teneva.cdf_getter(np.array(c['smp'], dtype=float))
            ref = e['num'] / e['den']
            v1 = f(float(c['z']))
            v2 = f(np.array([float(c['z']), float(c['z'])]))
            ctx.case(key=('cdf', c['smp'], c['z']), nontrivial=c['z'] in c['smp'])
            ctx.check(abs(v1 - ref) <= 1e-15 and np.all(np.abs(v2 - ref) <= 1e-15), 'cdf_getter:step', 'cdf(%s) of sample %s = %r, right-continuous step function gives %r' % (c['z'], c['smp'], v1, ref), case=row)
            f2 = teneva.cdf_getter(list(c['smp']))
            ctx.check(abs(f2(float(c['z'])) - ref) <= 1e-15, 'cdf_getter:list', 'list sample disagrees', case=row)
    # integer boxes x every grid size up to 128: both ends exactly on the bounds, every node inside the box (exact arithmetic
    # at the ends: I / (n - 1) = 1 and cos(0) = 1, cos(pi) = -1)
    for (a_, b_) in ((-6., 1.), (-6., 7.), (-3., 4.), (0., 1.), (-7., 0.), (2., 9.), (-1., 1.), (0., 3.), (-5., 6.)):
        for n_ in range(2, 129 if quick else 400):
            for kind in ('uni', 'cheb'):
                xs = np.asarray(teneva.ind_to_poi(np.arange(n_), a_, b_, n_, kind), dtype=float)
                lo_, hi_ = (xs[0], xs[-1]) if kind == 'uni' else (xs[-1], xs[0])
                ctx.case(key=('ends', a_, b_, n_, kind), nontrivial=n_ > 23)
                ctx.check(xs.shape == (n_,) and lo_ == a_ and hi_ == b_ and xs.min() >= a_ and xs.max() <= b_, 'ind_to_poi:end-' + kind,
                          'box [%g, %g], n=%d, %s grid: end nodes (%r, %r) are not exactly the bounds, or a node lies outside the box' % (a_, b_, n_, kind, lo_, hi_))
    # bounds / sizes given as arrays of small integer types (int8 / int16 / uint8 / int32) mean the same box as float lists
    for (a_, b_, dts) in ((-100, 100, (np.int8, np.int16, np.int32)), (-7, 0, (np.int8, np.int64)), (0, 200, (np.uint8, np.int16)),
                          (-30000, 30000, (np.int16, np.int32)), (3, 250, (np.uint8,))):
        for d_ in (1, 2, 3):
            n_ = 9
            Xq = rng.uniform(a_ - 5, b_ + 5, size=(11, d_))
            Iq = np.stack([rng.integers(0, n_, size=11) for _ in range(d_)], axis=1)
            for kind in ('uni', 'cheb'):
                ref_i = teneva.poi_to_ind(Xq, [float(a_)] * d_, [float(b_)] * d_, [n_] * d_, kind)
                ref_x = teneva.ind_to_poi(Iq, [float(a_)] * d_, [float(b_)] * d_, [n_] * d_, kind)
                ref_s = teneva.poi_scale(Xq, [float(a_)] * d_, [float(b_)] * d_, kind)
                ref_c = teneva.poi_scale(Xq, [float(a_)] * d_, [float(b_)] * d_, [2., 5.])
                for dt in dts:
                    aa, bb = np.array([a_] * d_, dtype=dt), np.array([b_] * d_, dtype=dt)
                    nn = np.array([n_] * d_, dtype=np.int16)
                    ctx.case(key=('int-bounds', a_, b_, d_, kind, str(np.dtype(dt))), nontrivial=True)
                    try:
                        ok_ = np.array_equal(teneva.poi_to_ind(Xq, aa, bb, nn, kind), ref_i) and np.array_equal(teneva.ind_to_poi(Iq, aa, bb, nn, kind), ref_x) \
                            and np.array_equal(teneva.poi_scale(Xq, aa, bb, kind), ref_s) and np.array_equal(teneva.poi_scale(Xq, aa, bb, [2., 5.]), ref_c) \
                            and np.array_equal(aa, [a_] * d_) and np.array_equal(bb, [b_] * d_)
                        why_ = 'differs from the same box given as float lists'
                    except Exception as ex:
                        ok_, why_ = False, 'raised %s: %s' % (type(ex).__name__, ex)
                    ctx.check(ok_, 'grid:int-bounds', 'box [%d, %d]^%d given as %s arrays (%s grid): %s' % (a_, b_, d_, np.dtype(dt), kind, why_))
    # option handling: scalar vs per-dimension, inconsistent lengths, history independence of the option arrays
    for t in range(20 if quick else 200):
        d = int(rng.integers(1, 5))
        n = int(rng.integers(2, 40)) if t % 3 else int(rng.choice([65, 100, 129, 200, 255, 300]))
        a, b = BOXES[int(rng.integers(len(BOXES)))]
        X = rng.uniform(a - 0.2 * (b - a), b + 0.2 * (b - a), size=(7, d))
        if n > 40:
            X[0], X[1] = a, b              # both ends of the box: the largest indices are used
        for kind in ('uni', 'cheb'):
            i_s = teneva.poi_to_ind(X, a, b, n, kind)
            n_arr = np.array([n] * d)
            i_v = teneva.poi_to_ind(X, [a] * d, np.array([b] * d), n_arr, kind)
            i_again = teneva.poi_to_ind(X, [a] * d, np.array([b] * d), n_arr, kind)
            one = np.array([teneva.poi_to_ind(x, a, b, n_arr, kind) for x in X])
            one2 = np.array([teneva.poi_to_ind(x, a, b, n_arr, kind) for x in X])
            ctx.case(key=('opts', t, kind, ctx.seed), nontrivial=True)
            ctx.check(np.array_equal(i_s, i_v) and np.array_equal(i_v, i_again) and np.array_equal(one, i_s) and np.array_equal(one2, i_s)
                      and i_s.min() >= 0 and i_s.max() <= n - 1 and np.array_equal(n_arr, [n] * d),
                      'poi_to_ind:options', 'scalar / per-dimension options, single points / batches or repeated calls disagree (%s grid, n=%d, d=%d)' % (kind, n, d))
            P = teneva.ind_to_poi(i_s, a, b, n, kind)
            P1 = np.array([teneva.ind_to_poi(i, [a] * d, [b] * d, [n] * d, kind) for i in i_s])
            ctx.check(np.allclose(P, P1, rtol=0, atol=0) and P.min() >= a - 1e-9 * abs(b - a) and P.max() <= b + 1e-9 * abs(b - a), 'ind_to_poi:options', 'single / batch disagree or points outside the box')
            # integer boxes: the affine map is exact at both ends, so index 0 / n-1 hit the bounds exactly and no node leaves the box
            if float(a).is_integer() and float(b).is_integer() and abs(a) < 2 ** 20 and abs(b) < 2 ** 20:
                allI = np.arange(n)
                xs = np.asarray(teneva.ind_to_poi(np.stack([allI] * d, axis=1), a, b, n, kind), dtype=float)
                lo_, hi_ = (xs[0, 0], xs[-1, 0]) if kind == 'uni' else (xs[-1, 0], xs[0, 0])
                ctx.check(lo_ == a and hi_ == b and xs.min() >= a and xs.max() <= b, 'ind_to_poi:end-' + kind,
                          'integer box [%g, %g], n=%d, %s grid: end nodes (%r, %r) are not exactly the bounds, or a node lies outside the box' % (a, b, n, kind, lo_, hi_))
            # an index is an index in whatever integer type it is stored
            for dt in (np.uint8, np.int8, np.int16, np.uint16, np.int32):
                if i_s.max() <= np.iinfo(dt).max:
                    Pd = teneva.ind_to_poi(i_s.astype(dt), a, b, n, kind)
                    ctx.check(np.array_equal(Pd, P), 'ind_to_poi:index-type', 'ind_to_poi of %s indices differs from the int64 answer by %.3g (%s grid, n=%d)'
                              % (np.dtype(dt), np.abs(np.asarray(Pd, dtype=float) - P).max(), kind, n))
            # the prepared option arrays belong to the caller: editing them must not leak into later calls
            a_, b_, n_ = teneva.grid_prep_opts(a, b, n, d)
            n_[0] += 8
            b_[-1] += 2.5
            a_[0] -= 1.
            i_after = teneva.poi_to_ind(X, a, b, n, kind)
            P_after = teneva.ind_to_poi(i_s, a, b, n, kind)
            ctx.check(np.array_equal(i_after, i_s) and np.array_equal(P_after, P), 'grid_prep_opts:history',
                      'after the caller edited the arrays returned by grid_prep_opts(a, b, n, d), calls with the same scalar options give other answers (%s grid, n=%d, d=%d)' % (kind, n, d))
        if d >= 2:
            for bad in ([a] * (d + 1), np.array([a] * (d - 1))):
                raised = False
                try:
                    teneva.grid_prep_opts(bad, b, n, d)
                except ValueError:
                    raised = True
                ctx.check(raised, 'grid_prep_opts:length', 'inconsistent option length %d for d = %d is not rejected' % (len(bad), d))


def check_midpoint_neighbours(ctx, quick):
    """Uniform grids on dyadic boxes [0, 2^j] (and boxes shifted to the right by 2^j, 3 * 2^j, where x - a is still exact) with n = 2^k + 1 nodes: the grid parameter of a
    double is computed without rounding, so "a nearest node" is decided exactly (rational arithmetic) for the midpoint of
    every cell and for its two floating point neighbours on each side; at the exact tie either neighbour is accepted."""
    for j in (0, 1, 3, -2, 10) if quick else (0, 1, 2, 3, -1, -2, -5, 10, 20):
        for off in (0., 2.0 ** j) if quick else (0., 2.0 ** j, 3 * 2.0 ** j):
            a, b = off, off + 2.0 ** j
            for k in range(0, 7):
                n = 2 ** k + 1
                h = (b - a) / (n - 1)
                xs = []
                for c in range(n - 1):
                    mid = a + (c + 0.5) * h
                    lo1 = np.nextafter(mid, -np.inf)
                    hi1 = np.nextafter(mid, np.inf)
                    xs += [np.nextafter(lo1, -np.inf), lo1, mid, hi1, np.nextafter(hi1, np.inf)]
                I = np.asarray(teneva.poi_to_ind(np.array(xs).reshape(-1, 1), a, b, n))
                ctx.case(key=('midpoints', j, off, n), nontrivial=True)
                bad = []
                if I.shape != (len(xs), 1):
                    bad.append(('shape', I.shape))
                else:
                    for x, i in zip(xs, I[:, 0]):
                        t = (Fraction(float(x)) - Fraction(a)) / (Fraction(b) - Fraction(a)) * (n - 1)
                        t = min(max(t, Fraction(0)), Fraction(n - 1))
                        if not (0 <= int(i) <= n - 1 and abs(Fraction(int(i)) - t) <= Fraction(1, 2)):
                            bad.append((float(x).hex(), int(i), float(t)))
                    one = [int(np.asarray(teneva.poi_to_ind([x], [a], [b], [n]))[0]) for x in xs[:10]]
                    if one != [int(v) for v in I[:10, 0]]:
                        bad.append(('single points differ from the batch', one))
                ctx.check(not bad, 'poi_to_ind:uni', 'uniform grid on [%r, %r] with n = %d nodes: %d of %d points next to cell midpoints are not mapped to a nearest node, e.g. (x, index, grid parameter) = %s'
                          % (a, b, n, len(bad), len(xs), bad[:3]))
