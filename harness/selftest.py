"""Binding self-tests: recorded traces that TLC accepts must be REJECTED once a
single recorded field is corrupted or an event is removed.  Run with
`./check <id> --selftest` for the trace-based checks (C04 C05 C06 C07 C08 C14);
exit 0 iff every corruption is rejected and every pristine trace accepted.
"""
import copy

import numpy as np

import teneva

from . import traces


def _validate(module, cfg, trs):
    v, _, _, _ = traces.validate(module, trs, cfg=cfg)
    return [x['ok'] for x in v]


def _report(name, good, corrupted, labels, module, cfg):
    ok_good = _validate(module, cfg, good)
    ok_bad = _validate(module, cfg, corrupted) if corrupted else []
    nacc = sum(ok_good)
    nrej = sum(1 for x in ok_bad if not x)
    print('%s selftest: %d/%d pristine traces accepted, %d/%d corrupted traces rejected' % (name, nacc, len(good), nrej, len(corrupted)))
    for lab, ok in zip(labels, ok_bad):
        if ok:
            print('  NOT REJECTED: ' + lab)
    return 0 if nacc == len(good) and nrej == len(corrupted) and corrupted else 1


def cross(ctx):
    from . import cross_rec as R
    good, bad, labels = [], [], []
    for (n, rho, r0, a, b, nswp), cache in zip(R.BASE_CONFIGS[:4], (False, True, True, False)):
        tr = R.strip(R.record(n, rho, r0, a, b, nswp, cache, seed=5)[0])
        good.append(tr)

        def variant(label, fn):
            t = copy.deepcopy(tr)
            if fn(t) is not False:
                bad.append(t)
                labels.append('%s (n=%s cache=%s)' % (label, n, cache))
        ev = tr['ev']
        idx = {k: [i for i, e in enumerate(ev) if e['ev'] == k] for k in ('req', 'fcall', 'reqdone', 'iter', 'cb', 'ret')}

        def c_ret_m(t):
            t['ev'][-1]['m'] += 1

        def c_fcall_row(t):
            i = idx['fcall'][len(idx['fcall']) // 2]
            row = t['ev'][i]['I'][0]
            row[0] = (row[0] + 1) % t['cfg']['n'][0]
            if t['cfg']['n'][0] == 1:
                return False

        def c_drop_iter(t):
            del t['ev'][idx['iter'][len(idx['iter']) // 2]]

        def c_cb_nswp(t):
            if not idx['cb']:
                return False
            t['ev'][idx['cb'][0]]['nswp'] += 1

        def c_reqdone_stop(t):
            i = idx['reqdone'][1]
            t['ev'][i]['stop'] = 'm'
            t['ev'][i]['ok'] = False

        def c_swap_rows(t):
            i = idx['fcall'][-1]
            I = t['ev'][i]['I']
            if len(I) < 2:
                return False
            I[0], I[1] = I[1], I[0]

        def c_iter_row(t):
            i = idx['iter'][-1]
            rows = t['ev'][i]['Inew']
            rows[0] = [x for x in rows[0]]
            rows[0][0] = (rows[0][0] + 1) % max(2, t['cfg']['n'][0 if t['ev'][i]['ltr'] else len(rows[0]) and -len(rows[0])])
            if len(rows) > 1 and rows[0] == rows[1]:
                return False

        def c_ret_ranks(t):
            t['ev'][-1]['ranks'][1] += 1

        def c_ret_flag(t):
            t['ev'][-1]['r_ok'] = False

        for lab, fn in (('ret.m + 1', c_ret_m), ('objective batch row changed', c_fcall_row), ('iter event removed', c_drop_iter), ('cb.nswp + 1', c_cb_nswp),
                        ('reqdone reports stop m', c_reqdone_stop), ('two rows of a batch swapped', c_swap_rows), ('returned ranks changed', c_ret_ranks),
                        ('info.r flag false', c_ret_flag)):
            variant(lab, fn)
    return _report(ctx.pid, good, bad, labels, 'Trace_Cross', 'Trace_Cross.cfg')


def als(ctx):
    from . import c07
    rng = np.random.default_rng(3)
    good, bad, labels = [], [], []
    for t_ in range(4):
        I, y, Y0, w, lamb = c07.random_problem(rng, [None, 'first', 'mid', 'last'][t_])
        tr = c07.record_als(I, y, Y0, nswp=2, lamb=lamb, w=w)[0]
        good.append(tr)
        opts = [i for i, e in enumerate(tr['ev']) if e['ev'] == 'opt']
        for lab, fn in (('solver called on another core', lambda t: t['ev'][opts[1]].__setitem__('ks', [(t['ev'][opts[1]]['ks'][0] + 1) % t['cfg']['d']])),
                        ('stale left interface', lambda t: t['ev'][opts[-1]].__setitem__('fresh_l', False)),
                        ('one core update missing', lambda t: t['ev'].__delitem__(opts[2])),
                        ('objective increased', lambda t: t['ev'][opts[0]].__setitem__('desc_ok', False)),
                        ('sweep count off by one', lambda t: t['ev'][-1].__setitem__('nswp', t['ev'][-1]['nswp'] + 1)),
                        ('extra update of the last core', lambda t: t['ev'].insert(opts[-1], copy.deepcopy(t['ev'][opts[-1]])))):
            t = copy.deepcopy(tr)
            fn(t)
            bad.append(t)
            labels.append(lab)
    return _report(ctx.pid, good, bad, labels, 'Trace_Als', 'Trace_Als.cfg')


def maxvol(ctx):
    from . import c08
    rng = np.random.default_rng(4)
    good, bad, labels = [], [], []
    tries = 0
    while len(good) < 6 and tries < 400:
        tries += 1
        n, r = [(5, 2), (6, 2), (7, 3), (8, 2)][tries % 4]
        A = c08.gen_int_matrix(rng, n, r)
        rect = None if tries % 2 else (1.1, 1, 2)
        raw, I, B = c08.record(A, 1.01, 100, rect)
        if sum(1 for x in raw if x['ev'] in ('mv_swap', 'mr_add')) == 0:
            continue
        tr = c08.to_trace(A.tolist(), 1.01, 100, rect, raw, I, B)
        good.append(tr)
        sw = [i for i, e in enumerate(tr['ev']) if e['ev'] in ('mv_swap', 'mr_add')]
        for lab, fn in (('swap / added row changed', lambda t: t['ev'][sw[0]].__setitem__('i', (t['ev'][sw[0]]['i'] + 1) % n)),
                        ('step removed', lambda t: t['ev'].__delitem__(sw[0])),
                        ('returned rows changed', lambda t: t['ev'][-1]['I'].__setitem__(0, (t['ev'][-1]['I'][0] + 1) % n)),
                        ('coefficient matrix flag false', lambda t: t['ev'][-1].__setitem__('B_ok', False))):
            t = copy.deepcopy(tr)
            fn(t)
            bad.append(t)
            labels.append(lab)
    return _report(ctx.pid, good, bad, labels, 'Trace_Maxvol', 'Trace_Maxvol.cfg')


def sampler(ctx):
    from . import c14
    rng = np.random.default_rng(5)
    good, bad, labels = [], [], []
    for kind in ('lin', 'sq', 'lin', 'sq'):
        Y = c14.int_tt(rng, [3, 2, 3], 2, 0 if kind == 'lin' else -2, 3 if kind == 'lin' else 2)
        if kind == 'lin' and c14.F.dense(Y).sum() <= 0:
            Y = [np.abs(G) + 1 for G in Y]
        tr, ok, res = c14.record_tt_sampler(Y, 4, kind, 7)
        good.append(tr)
        conds = [i for i, e in enumerate(tr['ev']) if e['ev'] == 'cond']
        for lab, fn in (('probability numerator changed', lambda t: t['ev'][conds[-1]]['num'].__setitem__(0, t['ev'][conds[-1]]['num'][0] + 1)),
                        ('returned index out of bounds', lambda t: t['ev'][-1]['rows'][0].__setitem__(0, 9)),
                        ('row missing', lambda t: t['ev'][-1]['rows'].pop())):
            t = copy.deepcopy(tr)
            fn(t)
            if t != tr:
                bad.append(t)
                labels.append(lab)
    I = teneva.sample_lhs([3, 4], 8, seed=1)
    lhs = dict(kind='lhs', cores=[], n=[3, 4], ev=[dict(ev='lhs', cols=[I[:, k].tolist() for k in range(2)])])
    good.append(lhs)
    t = copy.deepcopy(lhs)
    t['ev'][0]['cols'][1] = [0] * 8
    bad.append(t)
    labels.append('LHS column uses one index only')
    return _report(ctx.pid, good, bad, labels, 'Trace_Sampler', 'Trace_Sampler.cfg')


def orth(ctx):
    from . import c04
    rng = np.random.default_rng(6)
    good, bad, labels = [], [], []
    for t_ in range(4):
        d = 4 + t_ % 2
        n = [2, 3, 2, 2, 3][:d]
        r = [1] + [2] * (d - 1) + [1]
        Y = c04.make_tt(rng, n, r, 'generic')
        k = t_ % d
        stab = bool(t_ % 2)
        ev, out = c04.record_sweep(Y, k, stab)
        Z = out[0] if stab else out
        ev.append(dict(ev='end', r=[1] + [int(G.shape[2]) for G in Z], L_ok=True, R_ok=True, dense_ok=True, norm_ok=True, p_ok=True, fresh_ok=True))
        tr = dict(n=n, r=r, k=k, stab=stab, ev=ev)
        good.append(tr)
        steps = [i for i, e in enumerate(ev) if e['ev'] in ('left', 'right')]
        if not steps:
            continue
        for lab, fn in (('step on another core', lambda t: t['ev'][steps[0]].__setitem__('i', t['ev'][steps[0]]['i'] + 1)),
                        ('step removed', lambda t: t['ev'].__delitem__(steps[-1])),
                        ('left side not orthonormal', lambda t: t['ev'][-1].__setitem__('L_ok', False)),
                        ('rank grew', lambda t: t['ev'][-1]['r'].__setitem__(1, 9))):
            t = copy.deepcopy(tr)
            fn(t)
            bad.append(t)
            labels.append(lab)
    return _report(ctx.pid, good, bad, labels, 'Trace_Orth', 'Trace_Orth.cfg')
