"""Record the executions that the repository's OWN tests perform (code -> spec on somebody else's inputs).
The tests run in a subprocess under harness.pytest_plugin, which wraps teneva.cross / teneva.als with the
same seams the checks use and dumps the recorded traces; the traces are then validated by TLC."""
import json
import os
import subprocess
import sys
import tempfile

ROOT = os.path.dirname(os.path.dirname(os.path.abspath(__file__)))


def record(repo, files, timeout=900):
    """-> (traces dict, note).  Never a verdict by itself: missing test files or a failing pytest run only produce a note."""
    present = [f for f in files if os.path.exists(os.path.join(repo, f))]
    if not present:
        return {'cross': [], 'als': []}, 'repository test files not found: %s' % files
    fd, path = tempfile.mkstemp(suffix='.json', prefix='verif_repo_traces_')
    os.close(fd)
    env = dict(os.environ)
    env['VERIF_TRACE_OUT'] = path
    env['PYTHONPATH'] = repo + os.pathsep + ROOT + os.pathsep + env.get('PYTHONPATH', '')
    try:
        p = subprocess.run([sys.executable, '-m', 'pytest', '-q', '-p', 'no:cacheprovider', '-p', 'harness.pytest_plugin'] + present,
                           cwd=repo, env=env, stdout=subprocess.PIPE, stderr=subprocess.STDOUT, timeout=timeout, text=True)
        try:
            tr = json.load(open(path))
        except Exception:
            tr = {'cross': [], 'als': []}
        note = 'pytest %s -> rc=%d, %s' % (' '.join(present), p.returncode, (p.stdout.strip().splitlines() or ['?'])[-1])
    except subprocess.TimeoutExpired:
        tr, note = {'cross': [], 'als': []}, 'pytest timed out'
    finally:
        if os.path.exists(path):
            os.remove(path)
    return tr, note
