"""Run TLC on a specification of /verif/spec and parse what it printed.

Every registered check goes through run(): it starts TLC in a private
metadata directory (removed afterwards), collects

  * the state counts ("N states generated, M distinct states found"),
  * every value printed with PrintT(ToJson(..)) (lines that start with "{ / [),
  * tagged tuples printed with PrintT(<<"TAG", ...>>),
  * invariant violations / errors,
  * per-action coverage when asked for,

and classifies the run as ok / violated / machinery failure.  A machinery
failure (parse error, overflow, TLC crash, timeout) is never turned into a
property verdict by the callers: they exit with status 2.
"""
import json
import os
import re
import shutil
import subprocess
import tempfile
import time

SPEC_DIR = os.path.join(os.path.dirname(os.path.dirname(os.path.abspath(__file__))), 'spec')
JAR = '/opt/veriftools/tla/tla2tools.jar'
DEPS = '/opt/veriftools/tla/CommunityModules-deps.jar'


class TlcError(Exception):
    """Machinery failure (not a verdict)."""


class TlcResult:
    def __init__(self):
        self.generated = 0
        self.distinct = 0
        self.json = []          # decoded PrintT(ToJson(..)) values
        self.tuples = []        # raw text of PrintT(<<...>>) lines
        self.violated = None    # name of violated invariant / property or None
        self.error_text = ''
        self.raw_tail = ''
        self.wall = 0.0
        self.coverage = {}      # action name -> (distinct, total)
        self.depth = 0
        self.cmd = ''

    def tagged(self, tag):
        """Tuples <<"tag", a, b, ..>> printed by the spec -> list of lists."""
        out = []
        pat = re.compile(r'^<<\s*"%s"\s*(?:,\s*(.*))?>>$' % re.escape(tag))
        for t in self.tuples:
            m = pat.match(t)
            if m:
                out.append(parse_tla_value('<<' + (m.group(1) or '') + '>>'))
        return out


def parse_tla_value(s):
    """Parse the small subset of TLA+ values we print: ints, strings, booleans,
    tuples <<..>>, sets {..} (as lists)."""
    s = s.strip()
    pos = [0]

    def ws():
        while pos[0] < len(s) and s[pos[0]] in ' \n\t':
            pos[0] += 1

    def val():
        ws()
        c = s[pos[0]]
        if s.startswith('<<', pos[0]):
            pos[0] += 2
            return seq('>>')
        if c == '{':
            pos[0] += 1
            return seq('}')
        if c == '"':
            j = s.index('"', pos[0] + 1)
            v = s[pos[0] + 1:j]
            pos[0] = j + 1
            return v
        m = re.compile(r'-?\d+|TRUE|FALSE').match(s, pos[0])
        if not m:
            raise ValueError('cannot parse TLA value at %d: %r' % (pos[0], s[pos[0]:pos[0] + 40]))
        pos[0] = m.end()
        t = m.group(0)
        return True if t == 'TRUE' else False if t == 'FALSE' else int(t)

    def seq(close):
        out = []
        ws()
        if s.startswith(close, pos[0]):
            pos[0] += len(close)
            return out
        while True:
            out.append(val())
            ws()
            if s.startswith(close, pos[0]):
                pos[0] += len(close)
                return out
            if s[pos[0]] != ',':
                raise ValueError('expected , at %d in %r' % (pos[0], s))
            pos[0] += 1

    return val()


def run(module, cfg=None, workers=None, env=None, timeout=1800, simulate=None,
        depth=None, coverage=False, seed=None, deadlock=False, extra=None, dfs=False,
        allow_violation=False):
    """Run TLC on spec/<module>.tla with spec/<cfg> (default <module>.cfg)."""
    cfg = cfg or (module + '.cfg')
    meta = tempfile.mkdtemp(prefix='tlc_meta_')
    java_opts = ['-XX:+UseParallelGC', '-Xmx12g', '-Xss64m', '-Djava.io.tmpdir=' + meta]      # TLC's own scratch directories go with the metadir
    if dfs:
        java_opts.append('-Dtlc2.tool.queue.IStateQueue=StateDeque')
    cmd = ['java'] + java_opts + ['-cp', JAR + ':' + DEPS, 'tlc2.TLC',
           '-metadir', meta, '-noGenerateSpecTE', '-config', cfg]
    if workers is None:
        workers = 'auto'
    cmd += ['-workers', str(workers)]
    if simulate:
        cmd += ['-simulate', simulate]
    if depth:
        cmd += ['-depth', str(depth)]
    if seed is not None:
        cmd += ['-seed', str(seed)]
    if coverage:
        cmd += ['-coverage', '1']
    if deadlock:
        cmd += ['-deadlock']
    if extra:
        cmd += list(extra)
    cmd.append(module + '.tla')
    e = dict(os.environ)
    e.pop('JAVA_TOOL_OPTIONS', None)
    if env:
        e.update({k: str(v) for k, v in env.items()})
    res = TlcResult()
    res.cmd = ' '.join(cmd[cmd.index('tlc2.TLC'):])
    t0 = time.time()
    try:
        p = subprocess.run(cmd, cwd=SPEC_DIR, env=e, stdout=subprocess.PIPE,
                           stderr=subprocess.STDOUT, timeout=timeout, text=True)
        out = p.stdout
        rc = p.returncode
    except subprocess.TimeoutExpired as ex:
        shutil.rmtree(meta, ignore_errors=True)
        if simulate:   # simulation is always stopped from outside
            out = ex.stdout if isinstance(ex.stdout, str) else (ex.stdout or b'').decode()
            rc = 0
        else:
            raise TlcError('TLC timeout after %ss: %s' % (timeout, res.cmd))
    finally:
        shutil.rmtree(meta, ignore_errors=True)
    res.wall = time.time() - t0
    _parse(out, res)
    res.raw_tail = out[-3000:]
    if res.violated is None and res.error_text:
        raise TlcError('TLC error in %s/%s:\n%s' % (module, cfg, res.error_text[:3000]))
    if res.violated is None and rc != 0:
        raise TlcError('TLC exit %d in %s/%s:\n%s' % (rc, module, cfg, out[-3000:]))
    if res.violated is not None and not allow_violation:
        raise TlcError('model-level violation of %s in %s/%s (the specification itself breaks '
                       'its invariant - machinery, not code):\n%s' % (res.violated, module, cfg, out[-4000:]))
    return res


_RE_COUNT = re.compile(r'^(\d+) states generated, (\d+) distinct states found')
_RE_INV = re.compile(r'Invariant (\S+) is violated')
_RE_PROP = re.compile(r'(?:Action|Temporal) propert(?:y|ies) (\S+)? ?(?:is|were) violated')
_RE_COV = re.compile(r'^<(\w+) line \d+, col \d+ to line \d+, col \d+ of module \w+>: (\d+):(\d+)')
_RE_DEPTH = re.compile(r'The depth of the complete state graph search is (\d+)')


def _parse(out, res):
    lines = out.split('\n')
    i = 0
    err = []
    in_err = False
    while i < len(lines):
        ln = lines[i].rstrip('\r')
        i += 1
        if not ln:
            continue
        c = ln[0]
        if c == '"' and ln.endswith('"') and len(ln) > 1:
            # PrintT(ToJson(x)) prints a TLA+ string: "...." with \" escapes
            try:
                inner = json.loads(ln)
                res.json.append(json.loads(inner))
                continue
            except Exception:
                res.tuples.append(ln)
                continue
        if ln.startswith('<<'):
            # may span several lines when long
            buf = ln
            while buf.count('<<') > buf.count('>>') and i < len(lines):
                buf += ' ' + lines[i].strip()
                i += 1
            res.tuples.append(buf)
            continue
        m = _RE_COUNT.match(ln)
        if m:
            res.generated = int(m.group(1))
            res.distinct = int(m.group(2))
            continue
        m = _RE_INV.search(ln)
        if m:
            res.violated = m.group(1)
            continue
        if 'is violated' in ln or 'was violated' in ln or 'Deadlock reached' in ln:
            res.violated = res.violated or ln.strip()
            continue
        m = _RE_COV.match(ln)
        if m:
            res.coverage[m.group(1)] = (int(m.group(2)), int(m.group(3)))
            continue
        m = _RE_DEPTH.search(ln)
        if m:
            res.depth = int(m.group(1))
            continue
        if ln.startswith('Error:') or 'Exception' in ln or 'overflow' in ln.lower() or ln.startswith('***'):
            if 'Invariant' in ln and 'violated' in ln:
                continue
            in_err = True
        if in_err:
            err.append(ln)
            if len(err) > 40:
                in_err = False
    if res.violated is None:
        res.error_text = '\n'.join(err)
    # simulation mode prints progress differently
    if res.distinct == 0:
        m = re.findall(r'Progress: (\d+) states checked, (\d+) traces generated', out)
        if m:
            res.generated = int(m[-1][0])
            res.distinct = int(m[-1][0])
