"""Check context: verdict bookkeeping, known findings, evidence, replay files."""
import hashlib
import json
import os
import sys
import time

ROOT = os.path.dirname(os.path.dirname(os.path.abspath(__file__)))
OUT = os.environ.get('VERIF_OUT', os.path.join(ROOT, 'out'))
EVID = os.environ.get('VERIF_EVID', os.path.join(ROOT, 'evidence'))
KNOWN = os.path.join(ROOT, 'known_findings.json')


class Machinery(Exception):
    """Something in the verification machinery failed (exit 2, never a verdict)."""


def jdefault(o):
    import numpy as np
    if isinstance(o, np.ndarray):
        return o.tolist()
    if isinstance(o, (np.integer,)):
        return int(o)
    if isinstance(o, (np.floating,)):
        return float(o)
    if isinstance(o, (np.bool_,)):
        return bool(o)
    if isinstance(o, (set, frozenset, tuple)):
        return list(o)
    from fractions import Fraction
    if isinstance(o, Fraction):
        return [o.numerator, o.denominator]
    return repr(o)


class Ctx:
    """One run of one check."""

    def __init__(self, pid, tier, seed, level='model_checking'):
        self.pid = pid
        self.tier = tier
        self.seed = seed
        self.level = level
        self.t0 = time.time()
        self.states = 0
        self.transitions = 0
        self.traces_validated = 0
        self.evaluations = 0
        self.nontrivial = set()
        self.samples = []
        self.violations = []      # (sig, detail, replay path)
        self.known_hits = []
        self.notes = {}
        self.assumptions = []
        self.rule = ''
        self.tlc_runs = []
        self.exhaustive = None
        self.replay_filter = None  # set by --replay: only this case
        try:
            self.known = json.load(open(KNOWN))['findings']
        except FileNotFoundError:
            self.known = []
        os.makedirs(os.path.join(OUT, pid), exist_ok=True)

    # ---- coverage bookkeeping -------------------------------------------
    def add_tlc(self, res, what):
        self.states += res.distinct
        self.transitions += res.generated
        self.tlc_runs.append({'what': what, 'cmd': res.cmd, 'distinct_states': res.distinct,
                              'states_generated': res.generated, 'wall_s': round(res.wall, 2),
                              'depth': res.depth})

    def case(self, key=None, nontrivial=True, sample=None):
        """Count one evaluated case; key identifies distinct non-trivial ones."""
        self.evaluations += 1
        if nontrivial and key is not None:
            if not isinstance(key, str):
                key = json.dumps(key, sort_keys=True, default=jdefault)
            self.nontrivial.add(hashlib.blake2b(key.encode(), digest_size=8).digest())
        if sample is not None and len(self.samples) < 6:
            self.samples.append(json.loads(json.dumps(sample, default=jdefault)))

    def trace_ok(self, n=1):
        self.traces_validated += n

    # ---- verdicts --------------------------------------------------------
    def violation(self, sig, detail, case=None):
        """Report a violation. sig names the call site / input class so that a
        known finding can be matched; case is the replayable input."""
        for k in self.known:
            if k.get('property') == self.pid and k.get('status') == 'open' and k.get('sig') == sig:
                if sig not in [h[0] for h in self.known_hits]:
                    self.known_hits.append((sig, k.get('what', '')))
                return
        n = len(self.violations)
        path = os.path.join(OUT, self.pid, 'violation_%d.json' % n)
        if n < 20:
            with open(path, 'w') as f:
                json.dump({'property': self.pid, 'sig': sig, 'detail': detail, 'case': case,
                           'tier': self.tier, 'seed': self.seed}, f, indent=1, default=jdefault)
        self.violations.append((sig, detail, path))

    def check(self, cond, sig, detail, case=None):
        if not cond:
            self.violation(sig, detail, case)
        return bool(cond)

    # ---- finish ----------------------------------------------------------
    def finish(self, extra_cov=None):
        wall = time.time() - self.t0
        cov = {
            'states': int(self.states),
            'transitions': int(self.transitions),
            'traces_validated_against_impl': int(self.traces_validated),
            'evaluations': int(self.evaluations),
            'distinct_nontrivial': len(self.nontrivial),
            'rule': self.rule,
            'samples': self.samples if self.samples else [{'note': 'no sample recorded'}],
            'tlc_runs': self.tlc_runs,
        }
        if self.exhaustive is not None:
            cov['exhaustive'] = bool(self.exhaustive)
        cov.update(self.notes)
        if extra_cov:
            cov.update(extra_cov)
        ev = {
            'property_id': self.pid, 'tier': self.tier, 'seed': int(self.seed),
            'level': self.level, 'coverage': cov, 'assumptions': self.assumptions,
            'wall_s': round(wall, 2), 'violations': len(self.violations),
            'known_findings_reported': [h[0] for h in self.known_hits],
        }
        if self.replay_filter is None:
            os.makedirs(EVID, exist_ok=True)
            with open(os.path.join(EVID, self.pid + '.json'), 'w') as f:
                json.dump(ev, f, indent=1, default=jdefault)
        for sig, what in self.known_hits:
            print('KNOWN-FINDING: property=%s %s [%s]' % (self.pid, what, sig))
        if self.violations:
            seen = set()
            for sig, detail, path in self.violations[:20]:
                print('VIOLATION property=%s replay=%s' % (self.pid, path))
                if sig not in seen:
                    seen.add(sig)
                    print('  sig=%s detail=%s' % (sig, str(detail)[:600]))
            print('%s: %d violation(s) in %d evaluations (%.1fs)' % (self.pid, len(self.violations), self.evaluations, wall))
            return 1
        print('%s OK tier=%s seed=%d: states=%d transitions=%d traces=%d evaluations=%d nontrivial=%d (%.1fs)' % (
            self.pid, self.tier, self.seed, self.states, self.transitions, self.traces_validated,
            self.evaluations, len(self.nontrivial), wall))
        return 0


class _Safe:
    """Wraps a pmap worker: an exception raised inside the library becomes a violation record (see main.py)."""

    def __init__(self, worker):
        self.worker = worker

    def __call__(self, task):
        import traceback
        try:
            return self.worker(task)
        except Exception as ex:
            tb = traceback.extract_tb(ex.__traceback__)
            repo = os.path.abspath(os.environ.get('VERIF_REPO', '/repo'))
            last_h = max([j for j, f in enumerate(tb) if '/harness/' in f.filename] or [-1])
            lib_frames = [f for f in tb[last_h + 1:] if os.path.abspath(f.filename).startswith(repo + '/teneva/')]
            if lib_frames:
                where = '%s:%s' % (os.path.relpath(lib_frames[-1].filename, repo), lib_frames[-1].name)
                return [('viol', 'raised:' + where, 'the library raised %s: %s in %s on an input of the check' % (type(ex).__name__, ex, where),
                         {'task': repr(task)[:2000], 'traceback': traceback.format_exc()})]
            raise


def pmap(ctx, worker, tasks, nproc=None, chunksize=20):
    """Run worker(task) -> list of records in forked processes and merge the records into ctx.
    Records: ('case', key, nontrivial, sample) and ('viol', sig, detail, case)."""
    import multiprocessing as mp
    tasks = list(tasks)
    worker = _Safe(worker)
    if nproc is None:
        nproc = min(14, max(1, len(tasks) // 200))
    if nproc <= 1 or len(tasks) < 50:
        it = map(worker, tasks)
        pool = None
    else:
        pool = mp.get_context('fork').Pool(nproc)
        it = pool.imap(worker, tasks, chunksize)
    try:
        for recs in it:
            for r in recs:
                if r[0] == 'case':
                    ctx.case(key=r[1], nontrivial=r[2], sample=r[3])
                else:
                    ctx.violation(r[1], r[2], case=r[3])
    finally:
        if pool is not None:
            pool.close()
            pool.join()


class Recorder:
    """Stand-in for Ctx inside pmap workers: collects the same calls as records."""

    def __init__(self):
        self.records = []
        self.replay_filter = None
        self.notes = {}

    def case(self, key=None, nontrivial=True, sample=None):
        self.records.append(('case', key, nontrivial, sample))

    def violation(self, sig, detail, case=None):
        self.records.append(('viol', sig, detail, case))

    def check(self, cond, sig, detail, case=None):
        if not cond:
            self.violation(sig, detail, case)
        return bool(cond)
