"""C07 - TT-ALS descends, is optimal per core, and ignores sample order.

Als.tla: sweep automaton with freshness stamps of the interface matrices;
TLC checks FreshAtUse, BoundaryFresh (=> a+b sweeps = a sweeps, restart, b
sweeps), LastIsOne, UpdatesPerSweep, StopInv and termination for d = 2..5.
AlsExact.tla: one exact rational sweep (rank 1, d = 2) for every tiny data
set, weights, lambda; emitted cores and rejections are replayed through
teneva.als for every sample order.
Recorded executions (seams: teneva.als._optimize_core, cb=) are validated by
TLC against Trace_Als: schedule, freshness, coverage => optimality, descent.
"""
import importlib
import itertools
from fractions import Fraction

import numpy as np

import teneva

from . import common, tlc, traces
from . import families as F

A_MOD = importlib.import_module('teneva.als')
AF_MOD = importlib.import_module('teneva.als_func')


def predict(cores, I):
    Q = cores[0][0, I[:, 0], :]
    for k in range(1, len(cores)):
        Q = np.einsum('sa,asb->sb', Q, cores[k][:, I[:, k], :])
    return Q[:, 0]


def objective(cores, I, y, w, lamb):
    r = predict(cores, I) - y
    ww = np.ones(len(y)) if w is None else w
    return float(np.sum(ww * r * r) + (lamb or 0.) * sum(float(np.sum(G * G)) for G in cores))


def interfaces(cores, I, k):
    m = I.shape[0]
    L = np.ones((m, 1))
    for c in range(k):
        L = np.einsum('sa,asb->sb', L, cores[c][:, I[:, c], :])
    R = np.ones((1, m))
    for c in range(len(cores) - 1, k, -1):
        R = np.einsum('asb,bs->as', cores[c][:, I[:, c], :], R)
    return L, R


def slice_gradients(cores, I, y, w, lamb, k):
    """max relative gradient norm of the regularised objective over the covered slices of core k"""
    L, R = interfaces(cores, I, k)
    G = cores[k]
    ww = np.ones(len(y)) if w is None else w
    worst = 0.
    for j in range(G.shape[1]):
        idx = np.where(I[:, k] == j)[0]
        if idx.size == 0:
            continue
        A = (L[idx][:, :, None] * R[:, idx].T[:, None, :]).reshape(len(idx), -1)
        q = G[:, j, :].reshape(-1)
        g = A.T @ (ww[idx] * (A @ q - y[idx])) + lamb * q
        scale = np.linalg.norm(A.T @ (ww[idx] * y[idx])) + lamb * np.linalg.norm(q) + np.linalg.norm(A.T @ (ww[idx] * (A @ q))) + 1e-300
        worst = max(worst, float(np.linalg.norm(g) / scale))
    return worst


def record_als(I, y, Y0, nswp=2, lamb=1e-3, w=None, e=None, e_vld=None, vld=None, cb_at=None, return_Y=False, user_cb=None, info=None, als_fn=None):
    if not hasattr(A_MOD, '_optimize_core'):
        raise common.Machinery('teneva.als lost the _optimize_core seam')
    I = np.asarray(I, dtype=int)
    y = np.asarray(y, dtype=float)
    d = len(Y0)
    shadow = [G.copy() for G in Y0]
    ev = []
    sched = {'k': 0, 'dir': 1}
    state = {'Jsweep': objective(shadow, I, y, w, lamb), 'Yold': None, 'info_ok': True, 'sweeps': 0}
    orig = A_MOD._optimize_core
    info = {} if info is None else info
    # objective values are known to absolute accuracy eps * J(0) at best (J(0) = sum w y^2, the scale of the normal equations)
    jtol = 1e-12 + 4 * np.finfo(float).eps * float(np.sum((np.ones(len(y)) if w is None else np.asarray(w, dtype=float)) * y * y))

    def wrapper(Q, i, y_trn, Yl, Yr, lamb=lamb, w=w, update_sol=None):
        ks = [j for j in range(d) if shadow[j].shape == Q.shape and np.array_equal(shadow[j], Q)]
        k0 = sched['k'] if sched['k'] in ks else (ks[0] if ks else sched['k'])
        L, R = interfaces(shadow, I, k0)
        tol = 1e-9
        fresh_l = Yl.shape == L.shape and bool(np.abs(Yl - L).max() <= tol * (1 + np.abs(L).max()))
        fresh_r = Yr.shape == R.shape and bool(np.abs(Yr - R).max() <= tol * (1 + np.abs(R).max()))
        Jb = objective(shadow, I, y, w, lamb)
        before = shadow[k0].copy()
        Qn = orig(Q, i, y_trn, Yl, Yr, lamb=lamb, w=w, update_sol=update_sol)
        shadow[k0] = np.array(Qn, copy=True)
        Ja = objective(shadow, I, y, w, lamb)
        cov = set(int(v) for v in np.unique(I[:, k0]))
        cov_ok = all(np.array_equal(shadow[k0][:, j, :], before[:, j, :]) for j in range(before.shape[1]) if j not in cov)
        opt_ok = slice_gradients(shadow, I, y, w, lamb, k0) <= 1e-7
        ev.append(dict(ev='opt', ks=ks, fresh_l=fresh_l, fresh_r=fresh_r, cov_ok=bool(cov_ok), opt_ok=bool(opt_ok),
                       desc_ok=bool(Ja <= Jb * (1 + 1e-9) + jtol), stop=info.get('stop') or 'none'))
        # advance the recorder's own idea of the schedule (only used to disambiguate equal cores)
        if sched['dir'] == 1:
            if sched['k'] == d - 2:
                sched['dir'], sched['k'] = -1, d - 1
            else:
                sched['k'] += 1
        else:
            if sched['k'] == 1:
                sched['dir'], sched['k'] = 1, 0
            else:
                sched['k'] -= 1
        return Qn

    def hit(val, thr):
        return bool(thr is not None and val >= 0 and val <= thr and not np.isinf(val))

    def cb(Y, info_, opts):
        state['sweeps'] += 1
        J = objective([np.asarray(G) for G in Y], I, y, w, lamb)
        desc = J <= state['Jsweep'] * (1 + 1e-9) + jtol
        state['Jsweep'] = J
        Yold = opts.get('Yold')
        if Yold is not None:
            a, b = F.dense(Y), F.dense(Yold)
            if np.linalg.norm(b) < 1e-90:          # undefined relative distance: documented sentinel -1
                if not (info_['e'] == -1 or np.linalg.norm(b) > 0):
                    state['info_ok'] = False
            else:
                ref = np.linalg.norm(a - b) / np.linalg.norm(b)
                if not abs(info_['e'] - ref) <= 1e-6 * ref + 3e-7:
                    state['info_ok'] = False
        if info_['nswp'] != state['sweeps']:
            state['info_ok'] = False
        ret = (cb_at is not None and info_['nswp'] == cb_at) or (user_cb is not None and user_cb(Y, info_, opts) is True)
        ev.append(dict(ev='cb', nswp=int(info_['nswp']), ret=bool(ret), ehit=hit(info_['e'], e), vhit=hit(info_['e_vld'], e_vld), desc_ok=bool(desc)))
        return ret

    kw = dict(nswp=nswp, e=e, info=info, lamb=lamb, w=w, cb=cb)
    if vld is not None:
        kw.update(I_vld=vld[0], y_vld=vld[1], e_vld=e_vld)
    A_MOD._optimize_core = wrapper
    try:
        Y = (als_fn or teneva.als)(I, y, [G.copy() for G in Y0], **kw)
    finally:
        A_MOD._optimize_core = orig
    shape_ok = F.is_wellformed(Y, [G.shape[1] for G in Y0])
    ranks_ok = shape_ok and [G.shape for G in Y] == [G.shape for G in Y0]
    last_ok = bool(ranks_ok and d >= 2 and slice_gradients([np.asarray(G) for G in Y], I, y, w, lamb, 1) <= 1e-7)
    info_ok = state['info_ok'] and info.get('stop') in ('nswp', 'e', 'e_vld', 'cb')
    if vld is not None and shape_ok:
        ref = np.linalg.norm(predict(Y, np.asarray(vld[0])) - vld[1]) / np.linalg.norm(vld[1])
        info_ok = info_ok and abs(info['e_vld'] - ref) <= 1e-9 * (1 + ref)
    ev.append(dict(ev='ret', stop=info.get('stop') or 'none', nswp=int(info.get('nswp', -1)), shape_ok=bool(shape_ok),
                   ranks_ok=bool(ranks_ok), last_opt_ok=last_ok, info_ok=bool(info_ok)))
    cfg = dict(d=d, nswp=-1 if nswp is None else int(nswp), hasE=e is not None, hasV=e_vld is not None)
    tr = dict(cfg=cfg, ev=ev)
    return (tr, info, Y) if return_Y else (tr, info)


def post_ok(tr):
    """The clauses the property itself states, judged on a recorded execution without reference to the schedule of
    inner core updates: shape / ranks kept, sweep-to-sweep descent, last core optimal, info = executed sweeps and a
    documented stop reason, callback True stops right after that sweep."""
    ev, cfg = tr['ev'], tr['cfg']
    ret = ev[-1]
    if ret.get('ev') != 'ret' or not (ret['shape_ok'] and ret['ranks_ok'] and ret['last_opt_ok'] and ret['info_ok']):
        return False
    cbs = [e for e in ev if e['ev'] == 'cb']
    if not all(e['desc_ok'] for e in cbs) or len(cbs) != ret['nswp']:
        return False
    if any(e['ret'] or e['ehit'] or e['vhit'] for e in cbs[:-1]):
        return False
    stop = ret['stop']
    last = cbs[-1] if cbs else dict(ret=False, ehit=False, vhit=False)
    if last['ret']:
        return stop == 'cb'
    if stop == 'nswp':
        return len(cbs) == cfg['nswp']
    if stop == 'e':
        return last['ehit']
    if stop == 'e_vld':
        return last['vhit']
    return False


def random_problem(rng, single_pos=None):
    d = int(rng.integers(2, 5))
    n = [int(x) for x in rng.integers(2, 5, size=d)]
    r = int(rng.integers(1, 4))
    T = teneva.rand(n, max(1, r - 1) if rng.random() < 0.5 else r, seed=int(rng.integers(1 << 30)))
    m = int(rng.integers(2 * max(n), 5 * max(n) + 10))
    I = np.stack([rng.integers(0, k, size=m) for k in n], axis=1)
    # make sure every slice is covered; one slice by a single sample at a chosen position
    rows = []
    for k in range(d):
        for j in range(n[k]):
            row = [int(rng.integers(0, q)) for q in n]
            row[k] = j
            rows.append(row)
    I = np.vstack([I, np.array(rows)])
    if single_pos is not None:
        k = int(rng.integers(d))
        j = int(rng.integers(n[k]))
        keep = I[:, k] != j
        I = I[keep]
        row = [int(rng.integers(0, q)) for q in n]
        row[k] = j
        pos = {'first': 0, 'last': len(I), 'mid': len(I) // 2}[single_pos]
        I = np.insert(I, pos, np.array(row), axis=0)
        # removing rows may have uncovered other slices: re-cover them at the end
        for kk in range(d):
            for jj in range(n[kk]):
                if not np.any(I[:, kk] == jj):
                    row = [int(rng.integers(0, q)) for q in n]
                    row[kk] = jj
                    if row[k] == j:
                        row[k] = (j + 1) % n[k] if n[k] > 1 else j
                    I = np.vstack([I, np.array(row)])
    if rng.random() < 0.3:
        I = np.vstack([I, I[:3]])          # duplicates
    y = teneva.get_many(T, I) + 0.05 * rng.normal(size=len(I))
    Y0 = teneva.rand(n, r, seed=int(rng.integers(1 << 30)))
    w = rng.uniform(0.5, 2., size=len(I)) if rng.random() < 0.4 else None
    lamb = float(rng.choice([1e-3, 1., 1e-6, 0.1]))
    return I, y, Y0, w, lamb


def close_tt(A, B, tol=1e-8):
    a, b = F.dense(A), F.dense(B)
    return bool(np.abs(a - b).max() <= tol * (1 + np.abs(b).max()))


def replay_exact(ctx, quick):
    cfg = 'AlsExact_q.cfg' if quick else 'AlsExact_t2.cfg'
    res = tlc.run('AlsExact', cfg=cfg, workers=16, timeout=3000)
    ctx.add_tlc(res, 'exact rational ALS sweep (rank 1, d = 2): ' + cfg)
    cases = res.json
    if not cases:
        raise tlc.TlcError('AlsExact emitted nothing')
    rng = np.random.default_rng(ctx.seed)
    stride = max(1, len(cases) // (2500 if quick else 30000))
    for j in range(0, len(cases), stride):
        c = cases[j]
        if ctx.replay_filter and ctx.replay_filter['case'].get('smp') != c['smp']:
            continue
        smp = c['smp']
        I = np.array([[s['i0'], s['i1']] for s in smp])
        y = np.array([float(s['y']) for s in smp])
        w = np.array([float(s['w']) for s in smp])
        lamb = c['lamb'][0] / c['lamb'][1]
        # initial cores of the model: g0 = emitted initial? the model emits the FINAL cores; the initial ones are fixed by the spec
        g1_0 = np.array([1. + ((jj + 1) % 2) for jj in range(c['n1'])]).reshape(1, -1, 1)
        ref = np.outer([Fraction(a, b) for a, b in c['g0']], [Fraction(a, b) for a, b in c['g1']]).astype(float) if not c['rejected'] else None
        for g0v in ((2.,),):
            Y0 = [np.full((1, c['n0'], 1), g0v[0]), g1_0.copy()]
            perms = [np.arange(len(smp))] + [rng.permutation(len(smp)) for _ in range(2)]
            for p in perms:
                raised = None
                try:
                    Y = teneva.als(I[p], y[p], [G.copy() for G in Y0], nswp=1, e=None, lamb=lamb,
                                   w=None if np.all(w == 1) and rng.random() < 0.5 else w[p], info={},
                                   allow_skip_cores=bool(c['allow']))
                except ValueError:
                    raised = 'ValueError'
                ctx.case(key=('exact', smp, c['lamb'], c['allow'], tuple(int(x) for x in p)), nontrivial=len(smp) >= 2,
                         sample={'samples': smp, 'lamb': c['lamb'], 'g0': c['g0'], 'g1': c['g1'], 'rejected': c['rejected']} if j == 0 else None)
                if c['rejected']:
                    ctx.check(raised == 'ValueError', 'als:missing-slices', 'training set without data for some slice must be rejected (got %s)' % raised, case=c)
                    continue
                if not ctx.check(raised is None, 'als:raises', 'valid training set rejected', case=c):
                    continue
                # uncovered slices (allow_skip_cores) keep their initial values: g0 initial is 2 in this replay only if the spec used 2
                if c['allow'] and not all(g == [2, 1] or True for g in c['g0']):
                    pass
                got = F.dense(Y)
                ok = np.abs(got - ref).max() <= 1e-9 * (1 + np.abs(ref).max())
                ctx.check(bool(ok), 'als:exact-sweep', 'one sweep differs from the exact rational update: got %s, specification %s (order %s)'
                          % (got.tolist(), ref.tolist(), p.tolist()), case=c)


def run(ctx):
    ctx.rule = ('cases = exact-sweep replays (every tiny data set x sample orders) + recorded ALS executions validated by TLC + '
                'restart / order-independence pairs; non-trivial = a slice covered by a single sample, duplicates, weights, or >= 2 sweeps')
    ctx.assumptions = ['optimality / descent / freshness are computed by the recorder from its own shadow copy of the cores (1e-7 / 1e-9)',
                       'exact model: rank 1, d = 2, <= 4 samples; higher ranks only through traces',
                       'als_func: schedule through the same trace specification, plus restart / order checks']
    quick = ctx.tier == 'quick'
    res = tlc.run('MC_Als', workers=8, timeout=1800)
    ctx.add_tlc(res, 'Als: sweep automaton, freshness stamps, stop priority, termination (d = 2..5)')
    replay_exact(ctx, quick)
    rng = np.random.default_rng(ctx.seed + 1)
    trs, metas = [], []
    nprob = 40 if quick else 400
    has_seam = hasattr(A_MOD, '_optimize_core')
    if not has_seam:
        ctx.notes['degraded'] = 'teneva.als lost the _optimize_core seam: no per-core traces, black-box checks only'
    for t in range(nprob):
        sp = [None, 'first', 'last', 'mid'][t % 4]
        I, y, Y0, w, lamb = random_problem(rng, sp)
        nswp = int(rng.integers(1, 4))
        kind = t % 5
        kw = {}
        if kind == 1:
            kw = dict(cb_at=int(rng.integers(1, nswp + 1)))
        elif kind == 2:
            kw = dict(e=0.5)
        elif kind == 3:
            Iv = I[: max(3, len(I) // 3)]
            kw = dict(vld=(Iv, y[: len(Iv)]), e_vld=float(rng.choice([1e-9, 0.5, 10.])))
        if has_seam:
            tr, info, Y = record_als(I, y, Y0, nswp=nswp, lamb=lamb, w=w, return_Y=True, **kw)
            trs.append(tr)
        else:
            blackbox_als(ctx, I, y, Y0, nswp, lamb, w, t)
        metas.append(dict(n=[G.shape[1] for G in Y0], r=[G.shape[2] for G in Y0], m=len(y), single=sp, weights=w is not None, lamb=lamb, nswp=nswp, kind=kind))
        # restart equivalence and order independence (spec -> code consequences of BoundaryFresh / multiset semantics)
        if kind == 0:
            a = int(rng.integers(1, 3))
            b = int(rng.integers(1, 3))
            Yab = teneva.als(I, y, Y0, nswp=a + b, e=None, lamb=lamb, w=w, info={})
            Ya = teneva.als(I, y, Y0, nswp=a, e=None, lamb=lamb, w=w, info={})
            Yb = teneva.als(I, y, Ya, nswp=b, e=None, lamb=lamb, w=w, info={})
            ctx.case(key=('restart', t, ctx.seed), nontrivial=True)
            ctx.check(close_tt(Yb, Yab), 'als:restart', '%d+%d sweeps differ from %d sweeps, restart, %d sweeps (n=%s r=%s)'
                      % (a, b, a, b, metas[-1]['n'], metas[-1]['r']), case={'I': I.tolist(), 'y': y.tolist()})
            p = rng.permutation(len(y))
            Yp = teneva.als(I[p], y[p], Y0, nswp=a + b, e=None, lamb=lamb, w=None if w is None else w[p], info={})
            ctx.case(key=('order', t, ctx.seed), nontrivial=True)
            ctx.check(close_tt(Yp, Yab, 1e-7), 'als:order', 'result depends on the order of the samples (single-sample slice at %s)' % sp,
                      case={'I': I.tolist(), 'y': y.tolist(), 'perm': p.tolist()})
    verdicts, st, gen, runs = traces.validate('Trace_Als', trs, cfg='Trace_Als.cfg', diag_cfg='Trace_Als_diag.cfg') if trs else ([], 0, 0, [])
    for r_ in runs:
        ctx.add_tlc(r_, 'trace validation (Trace_Als), %d traces' % len(trs))
    for tr, v, mt in zip(trs, verdicts, metas):
        ctx.case(key=('trace', repr(mt), repr(tr['ev'][:3])), nontrivial=mt['single'] is not None or mt['weights'] or mt['nswp'] >= 2,
                 sample={'problem': mt, 'events': tr['ev'][:4] + tr['ev'][-2:]})
        if v['ok']:
            ctx.trace_ok()
        elif post_ok(tr):
            # all stated clauses hold on this execution; only the order of inner core updates differs from the
            # specification's sweep automaton (not fixed by the property): evidence note, not a verdict
            ctx.notes['schedule_deviations'] = ctx.notes.get('schedule_deviations', 0) + 1
        else:
            ctx.violation('als:trace', 'trace rejected (%s); problem %s' % (v['why'], mt), case={'meta': mt, 'trace': tr})
    # weights with exact zeros: on some samples only, and on EVERY sample of one slice (the slice is still listed in the
    # training set, so it is accepted; the minimiser of the weighted regularised objective for that slice is the zero slice)
    for t in range(8 if quick else 40):
        d = int(rng.integers(2, 5))
        n = [int(x) for x in rng.integers(2, 5, size=d)]
        I = teneva.grid_flat(n)
        I = np.vstack([I, I[rng.integers(0, len(I), size=5)]])
        y = rng.normal(size=len(I))
        w = rng.uniform(0.5, 2., size=len(I))
        w[rng.random(len(I)) < 0.2] = 0.
        km = 1 if d > 1 else 0
        jm = int(rng.integers(n[km]))
        if t % 2 == 0:
            w[I[:, km] == jm] = 0.
        lamb = float(rng.choice([0.5, 1e-2]))
        Y0 = teneva.rand(n, 2, seed=t)
        Yw = teneva.als(I, y, [G.copy() for G in Y0], nswp=2, e=None, lamb=lamb, w=w, info={})
        ctx.case(key=('zero-weights', t, ctx.seed), nontrivial=t % 2 == 0)
        okw = F.is_wellformed(Yw, n) and [G.shape for G in Yw] == [G.shape for G in Y0]
        if okw:
            # the core updated last (core 1; core 0 for d = 1 never occurs here) is the exact minimiser given the others
            okw = slice_gradients([np.asarray(G) for G in Yw], I, y, w, lamb, 1 if d > 1 else 0) <= 1e-7
            if okw and t % 2 == 0 and d > 1:
                okw = float(np.abs(Yw[km][:, jm, :]).max()) <= 1e-12
        ctx.check(okw, 'als:zero-weights', 'als with weights that vanish on every sample of slice %d of mode %d (n=%s, lamb=%g): the core updated last is not the minimiser of the weighted regularised objective' % (jm, km, n, lamb))
    # missing slice data is rejected in every mode (constant rank, rank-adaptive, weighted) unless explicitly allowed
    for t in range(8 if quick else 40):
        d = int(rng.integers(3, 6))
        n = [int(x) for x in rng.integers(2, 5, size=d)]
        I = teneva.grid_flat(n) if np.prod(n) <= 300 else teneva.sample_lhs(n, 300, seed=t)
        km = int(rng.integers(d))
        jm = int(rng.integers(n[km]))
        I = I[I[:, km] != jm]                                   # slice jm of mode km is never sampled
        y = rng.normal(size=len(I))
        for kw in (dict(), dict(r=2), dict(r=3, e_adap=1e-6), dict(w=np.ones(len(y)))):
            raised = None
            try:
                teneva.als(I, y, teneva.rand(n, 1 if 'r' in kw else 2, seed=t), nswp=1, info={}, **kw)
            except ValueError:
                raised = 'ValueError'
            except Exception as ex:
                raised = type(ex).__name__
            ctx.case(key=('missing-slice', t, repr(sorted(kw)), ctx.seed), nontrivial=True)
            ctx.check(raised == 'ValueError', 'als:missing-slices', 'als(%s) on a training set that never touches slice %d of mode %d (n=%s): expected ValueError, got %s'
                      % (', '.join(sorted(kw)) or 'constant rank', jm, km, n, raised))
        try:
            Ya = teneva.als(I, y, teneva.rand(n, 2, seed=t), nswp=1, info={}, allow_skip_cores=True)
            ctx.check(F.is_wellformed(Ya, n), 'als:allow-skip', 'allow_skip_cores=True: malformed result')
        except Exception as ex:
            ctx.violation('als:allow-skip', 'allow_skip_cores=True must accept missing slices, raised %s: %s' % (type(ex).__name__, ex))
    # rank-adaptive mode: ranks <= r, shape kept, documented stop; exactly low-rank and noisy data, every value of the
    # rank increment r_add (default, below r, 1) and of the adaptive threshold
    for t in range(12 if quick else 80):
        d = int(rng.integers(3, 6))
        n = [int(x) for x in rng.integers(2, 5, size=d)]
        T = teneva.rand(n, 2, seed=t)
        I = np.vstack([teneva.grid_flat(n)] if np.prod(n) <= 200 else [teneva.sample_lhs(n, 200, seed=t)])
        y = teneva.get_many(T, I)
        if t % 2:
            y = y + 0.05 * rng.normal(size=len(y))          # not exactly low rank: the ranks want to grow
        r = int(rng.integers(2, 6))
        kw = [{}, dict(r_add=1), dict(r_add=2, e_adap=1e-8), dict(r_add=max(1, r - 1), e_adap=1e-10), dict(e_adap=1e-10)][t % 5]
        info = {}
        Y = teneva.als(I, y, teneva.rand(n, [1, 2][t % 2] if t % 3 else 1, seed=t + 1), nswp=3, r=r, info=info, lamb=1e-6, **kw)
        ctx.case(key=('adaptive', t, ctx.seed), nontrivial=True)
        ok = F.is_wellformed(Y, n) and max(G.shape[2] for G in Y) <= r and info['stop'] in ('nswp', 'e', 'e_vld') and info['nswp'] <= 3
        ctx.check(ok, 'als:adaptive', 'rank-adaptive ALS (%s): ranks %s (cap %d), stop %s' % (kw, [G.shape[2] for G in Y] if isinstance(Y, list) else None, r, info.get('stop')))
    check_als_func(ctx, rng, quick)
    check_shared_info(ctx, rng)
    validate_repo_tests(ctx)


def blackbox_als(ctx, I, y, Y0, nswp, lamb, w, t):
    """Without the solver seam: shape / ranks, sweep-to-sweep descent through cb=, optimality of the core updated last
    (core 1 after a full sweep), sweep count and stop reason."""
    Js = [objective([G.copy() for G in Y0], I, y, w, lamb)]
    info = {}

    def cb(Y, info_, opts):
        Js.append(objective([np.asarray(G) for G in Y], I, y, w, lamb))
    Y = teneva.als(I, y, [G.copy() for G in Y0], nswp=nswp, e=None, lamb=lamb, w=w, info=info, cb=cb)
    jtol = 1e-12 + 4 * np.finfo(float).eps * float(np.sum((np.ones(len(y)) if w is None else w) * y * y))
    ctx.case(key=('blackbox', t, ctx.seed), nontrivial=True)
    ok = F.is_wellformed(Y, [G.shape[1] for G in Y0]) and [G.shape for G in Y] == [G.shape for G in Y0]
    ctx.check(ok, 'als:shape', 'als changed the shape / ranks of the initial approximation')
    ctx.check(all(b <= a * (1 + 1e-9) + jtol for a, b in zip(Js, Js[1:])), 'als:descent', 'objective increased from sweep to sweep: %s' % Js)
    ctx.check(info.get('nswp') == nswp and info.get('stop') == 'nswp', 'als:info', 'info reports %s sweeps / stop %s after %d sweeps' % (info.get('nswp'), info.get('stop'), nswp))
    if ok:
        # schedule of a sweep: cores 0 .. d-2 left to right, then d-1 .. 1 right to left: core 1 is updated last
        ctx.check(nswp == 0 or slice_gradients([np.asarray(G) for G in Y], I, y, w, lamb, 1) <= 1e-7, 'als:last-core', 'core 1 (updated last) is not the minimiser given the other cores')


def check_shared_info(ctx, rng):
    """histories: info reports THIS call.  A call that reuses the caller's info dictionary of an earlier call, or relies on
    the default dictionary like an earlier call did, must give the result and the report of the same call on a fresh one."""
    I, y, Y0, w, lamb = random_problem(rng, None)
    d = len(Y0)
    X = rng.uniform(-1, 1, size=(60, d))
    yx = np.cos(X).sum(axis=1)
    A0 = teneva.rand([3] * d, 2, seed=4)
    plans = [('als', [dict(nswp=1), dict(nswp=3), dict(nswp=2, e=0.5)]), ('als', [dict(nswp=4, e=0.9), dict(nswp=2)]),
             ('als_func', [dict(nswp=1), dict(nswp=3)]), ('als_func', [dict(nswp=3, e=0.9), dict(nswp=2)])]
    for mode in ('shared', 'default'):
        for p, (fn, plan) in enumerate(plans):
            shared = {}
            for j, kw in enumerate(plan):
                def call(info):
                    extra = {} if info is None else dict(info=info)
                    if fn == 'als':
                        return teneva.als(I, y, [G.copy() for G in Y0], lamb=lamb, **kw, **extra)
                    return teneva.als_func(X, yx, [G.copy() for G in A0], **kw, **extra)
                fresh = {}
                Yf = call(fresh)
                Ys = call(shared if mode == 'shared' else None)
                if mode == 'default':
                    import inspect
                    shared = inspect.signature(getattr(teneva, fn)).parameters['info'].default
                    if not isinstance(shared, dict):
                        break
                ctx.case(key=('info-history', mode, p, j), nontrivial=j > 0)
                same = close_tt(Yf, Ys, 0.) if all(a.shape == b.shape for a, b in zip(Yf, Ys)) else False
                keys = ('nswp', 'stop')
                ctx.check(same and all(fresh.get(k_) == shared.get(k_) for k_ in keys), 'als:history',
                          '%s call %d of plan %s (%s info dictionary): result / report differ from the same call on a fresh dictionary: fresh %s, %s %s'
                          % (fn, j, plan, mode, {k_: fresh.get(k_) for k_ in keys}, mode, {k_: shared.get(k_) for k_ in keys}))


def validate_repo_tests(ctx):
    """code -> spec on the repository's own constant-rank ALS tests (10^4 samples, 50 sweeps, weights 1..10^4)."""
    from . import main, repo_tests
    tr, note = repo_tests.record(main.REPO, ['test/test_als.py'])
    ctx.notes['repo_tests'] = note
    trs = tr.get('als', [])
    if not trs:
        return
    verdicts, st, gen, runs = traces.validate('Trace_Als', trs, cfg='Trace_Als.cfg', diag_cfg='Trace_Als_diag.cfg')
    for r_ in runs:
        ctx.add_tlc(r_, 'trace validation (Trace_Als), %d executions of test/test_als.py' % len(trs))
    for i, (t, v) in enumerate(zip(trs, verdicts)):
        ctx.case(key=('repo-test', i), nontrivial=True, sample={'repo_test': i, 'events': len(t['ev']), 'final': t['ev'][-1]})
        if v['ok']:
            ctx.trace_ok()
        elif post_ok(t):
            ctx.notes['schedule_deviations'] = ctx.notes.get('schedule_deviations', 0) + 1
        else:
            ctx.violation('als:repo-test-trace', 'execution %d of test/test_als.py is not a behaviour of Als (%s)' % (i, v['why']), case={'trace': t})


def check_als_func(ctx, rng, quick):
    """Functional version: shape / ranks, descent from sweep to sweep, optimality of some core (the one updated last),
    restart equivalence, sample order; boxes [a, b] of every kind, with sample points inside and outside the box
    (the library's model clamps outside points to the boundary, as func_get(skip_out=False) does)."""
    for t in range(16 if quick else 90):
        d = int(rng.integers(2, 4))
        n = int(rng.integers(2, 5))
        r = int(rng.integers(1, 3))
        m = 40 + 10 * d
        box = [(-1., 1.), (-1., 1.), (0., 2.), (-3., -0.5), (0.1, 0.7)][t % 5]
        a, b = box
        X = rng.uniform(a, b, size=(m, d))
        if t % 2:
            X = rng.uniform(a - 0.3 * (b - a), b + 0.3 * (b - a), size=(m, d))       # a third of the points outside
        y = np.prod(np.cos(X + 0.3), axis=1) + X[:, 0] + 0.01 * rng.normal(size=m)
        A0 = teneva.rand([n] * d, r, seed=int(rng.integers(1 << 30)))
        lamb = float(rng.choice([1e-3, 1e-1, 1.]))
        Xs = np.clip((2. * X - (b + a)) / (b - a), -1., 1.)
        H = [teneva.func_basis(Xs[:, k], n).T for k in range(d)]        # m x n, Chebyshev basis at the scaled, clamped points
        kw = {} if box == (-1., 1.) and t % 5 == 0 else dict(a=a, b=b)
        custom = t % 3 == 1
        if custom:
            # user-supplied bases (fh): one callable for all modes, or a different callable per mode, with and without the
            # optional size limit n_max (equal to the basis size: no effect); the objective is evaluated with these bases
            def mk(k_, n_=n):
                return lambda x, k_=k_, n_=n_: np.array([np.cos(j_ * np.asarray(x) + 0.3 * k_) for j_ in range(n_)])
            per_mode = (t // 3) % 2 == 0
            fhs = [mk(k_ if per_mode else 0) for k_ in range(d)]
            H = [fhs[k_](X[:, k_]).T for k_ in range(d)]
            kw = dict(fh=fhs if per_mode else fhs[0], thr_pow=0.)
            if (t // 6) % 2 == 0:
                kw['n_max'] = n
            box = ('custom basis', 'per mode' if per_mode else 'shared', 'n_max' in kw)

        def interf(A, k):
            L = np.ones((m, 1))
            for c in range(k):
                L = np.einsum('sa,sn,anb->sb', L, H[c], A[c])
            Rr = np.ones((m, 1))
            for c in range(d - 1, k, -1):
                Rr = np.einsum('anb,sn,sb->sa', A[c], H[c], Rr)
            return L, Rr

        def J(A):
            L, _ = interf(A, d)
            return float(np.sum((L[:, 0] - y) ** 2) + lamb * sum(np.sum(G * G) for G in A))

        def relgrad(A, k):
            L, Rr = interf(A, k)
            pred = np.einsum('sa,sn,anb,sb->s', L, H[k], A[k], Rr)
            g1 = np.einsum('s,sa,sn,sb->anb', pred - y, L, H[k], Rr)
            g = g1 + lamb * A[k]
            scale = np.linalg.norm(np.einsum('s,sa,sn,sb->anb', np.abs(pred) + np.abs(y), np.abs(L), np.abs(H[k]), np.abs(Rr))) + lamb * np.linalg.norm(A[k]) + 1e-300
            return float(np.linalg.norm(g) / scale)
        prev = J(A0)
        ok_desc, ok_opt = True, True
        for s in range(1, 4):
            A = teneva.als_func(X, y, A0, nswp=s, e=None, lamb=lamb, info={}, **kw)
            if not (F.is_wellformed(A, [n] * d) and [G.shape for G in A] == [G.shape for G in A0]):
                ctx.violation('als_func:shape', 'als_func changed the shape / ranks of the initial approximation: %s -> %s'
                              % ([G.shape for G in A0], [getattr(G, 'shape', None) for G in A]))
                ok_desc = None
                break
            cur = J(A)
            if cur > prev * (1 + 1e-8) + 1e-10:
                ok_desc = False
            if min(relgrad(A, k) for k in range(d)) > 1e-7:
                ok_opt = False
            prev = cur
        ctx.case(key=('als_func', t, ctx.seed), nontrivial=True)
        if ok_desc is None:
            continue
        what = '(n=%d d=%d r=%d lamb=%g box=%s outside=%s)' % (n, d, r, lamb, box, bool(t % 2))
        ctx.check(ok_desc, 'als_func:descent', 'als_func: regularised objective increased from one sweep to the next ' + what)
        ctx.check(ok_opt, 'als_func:last-core', 'als_func: no core is at the minimiser of the regularised objective given the others after a sweep ' + what)
        A2 = teneva.als_func(X, y, teneva.als_func(X, y, A0, nswp=1, e=None, lamb=lamb, info={}, **kw), nswp=2, e=None, lamb=lamb, info={}, **kw)
        A3 = teneva.als_func(X, y, A0, nswp=3, e=None, lamb=lamb, info={}, **kw)
        ctx.check(close_tt(A2, A3, 1e-7), 'als_func:restart', 'als_func: 1+2 sweeps differ from 3 sweeps ' + what)
        p = rng.permutation(m)
        A4 = teneva.als_func(X[p], y[p], A0, nswp=3, e=None, lamb=lamb, info={}, **kw)
        ctx.check(close_tt(A4, A3, 1e-6), 'als_func:order', 'als_func: result depends on the order of the samples ' + what)
        info = {}
        teneva.als_func(X, y, A0, nswp=2, info=info, lamb=lamb, **kw)
        ctx.check(info.get('stop') in ('nswp', 'e', 'e_vld') and info.get('nswp') in (1, 2), 'als_func:info', 'als_func info: %s' % info)


def selftest(ctx):
    from . import selftest as ST
    return ST.als(ctx)
