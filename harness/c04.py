"""C04 - orthogonalize preserves the tensor and yields orthonormal cores around the pivot.

Orth.tla: status (L / R / W), rank vector and buffer version per core; actions
Left(i), Right(i), Sweep(k), rejection of out-of-range arguments; invariants
RanksCarried, Boundary and the action properties NoRankGrows, Frame.  TLC
emits all programs of single steps / sweeps up to the bound with the expected
statuses, rank bounds and touched cores after every step; each program is
replayed on tensors of that rank profile (generic, rank-deficient, scaled by
10^+-k), in place and not in place.  orthogonalize itself is additionally
traced through the module-level single-step functions and core_stab and TLC
validates that it is the composition of the single steps (Trace_Orth).
"""
import importlib

import numpy as np

import teneva

from . import families as F
from . import tlc, traces

T_MOD = importlib.import_module('teneva.transformation')


def make_tt(rng, n, r, kind):
    d = len(n)
    Y = [rng.normal(size=(r[k], n[k], r[k + 1])) for k in range(d)]
    if kind == 'deficient':
        for G in Y:
            if G.shape[2] > 1:
                G[:, :, -1] = G[:, :, 0]            # duplicate column: rank-deficient unfolding
            if G.shape[0] > 1 and rng.random() < 0.5:
                G[-1, :, :] = 0.
    elif kind == 'scaled':
        for k in range(d):
            Y[k] = Y[k] * 10.0 ** float(rng.integers(-12, 13))
    elif kind == 'integer':
        Y = [np.round(2 * G) for G in Y]
    if kind == 'fortran':
        Y = [np.asfortranarray(G) for G in Y]
    if kind in ('nearorth-L', 'nearorth-R'):
        # cores that are orthonormal up to ~1e-6 (e.g. a tensor orthogonalised in lower precision, or rescaled slightly):
        # close enough to pass a loose "already orthogonal" test, far from the 1e-9 the property is checked at
        for k in range(d):
            r1, nk, r2 = Y[k].shape
            if kind == 'nearorth-L' and r1 * nk >= r2:
                Q = np.linalg.qr(Y[k].reshape(r1 * nk, r2))[0]
                Y[k] = (Q * (1 + 2e-6 * rng.choice([-1., 1.])) + 3e-9 * rng.normal(size=Q.shape)).reshape(r1, nk, r2)
            elif kind == 'nearorth-R' and nk * r2 >= r1:
                Q = np.linalg.qr(Y[k].reshape(r1, nk * r2).T)[0].T
                Y[k] = (Q * (1 + 2e-6 * rng.choice([-1., 1.])) + 3e-9 * rng.normal(size=Q.shape)).reshape(r1, nk, r2)
    if kind == 'shared':
        # one ndarray object (Fortran-ordered) sits in every slot of the same shape: slots are rebound by the steps, the
        # shared object itself must never be written
        pool = {}
        for k in range(d):
            key = Y[k].shape
            if key not in pool:
                pool[key] = np.asfortranarray(Y[k])
            Y[k] = pool[key]
    return Y


def is_left_orth(G, tol=1e-9):
    M = G.reshape(-1, G.shape[2])
    return bool(np.abs(M.T @ M - np.eye(M.shape[1])).max() <= tol)


def is_right_orth(G, tol=1e-9):
    M = G.reshape(G.shape[0], -1)
    return bool(np.abs(M @ M.T - np.eye(M.shape[0])).max() <= tol)


def safe_norm(G, p):
    """||G|| * 2^p without intermediate under/overflow"""
    mx = float(np.abs(G).max())
    if mx == 0.:
        return 0.
    e = int(np.floor(np.log2(mx)))
    return float(np.linalg.norm(G / 2.0 ** e) * 2.0 ** (e + p))


def dense_close(A, B, scale):
    return bool(np.abs(A - B).max() <= 1e-9 * scale)


def run_program(ctx, n, hist, rng, kind, inplace):
    r0 = hist[0]['r']
    Y = make_tt(rng, n, r0, kind)
    D0 = F.dense(Y)
    scale = float(np.prod([np.linalg.norm(G) for G in Y])) + 1e-300
    d = len(n)
    for s, step in enumerate(hist[1:], start=1):
        op, i = step['op'], step['i']
        keep = [G.copy() for G in Y]
        ids = [id(G) for G in Y]
        raised = False
        what = '%s(%d) %s on n=%s ranks %s [%s]' % (op, i, 'inplace' if inplace else 'copy', n, [G.shape[2] for G in Y[:-1]], kind)
        # a mode number is a mode number whether it is a Python int or a NumPy integer scalar (rng.integers, argmax, arange ...)
        i_arg = [i, np.int64(i), np.int32(i), np.intp(i), np.uint8(i) if 0 <= i < 200 else i][(s + len(n) + i) % 5]
        what += '' if type(i_arg) is int else ' (mode number as %s)' % type(i_arg).__name__
        try:
            if op == 'left':
                Z = teneva.orthogonalize_left(Y, i_arg, inplace=inplace)
            elif op == 'right':
                Z = teneva.orthogonalize_right(Y, i_arg, inplace=inplace)
            else:
                Z = teneva.orthogonalize(Y, i_arg)
        except ValueError:
            raised = True
        except Exception as ex:
            ctx.violation('orth:raises', '%s raised %s: %s' % (what, type(ex).__name__, ex), case={'n': n, 'hist': hist})
            return
        if step['rejected']:
            ok = raised and all(np.array_equal(a, b) for a, b in zip(Y, keep))
            ctx.check(ok, 'orth:reject', '%s: out-of-range mode must raise ValueError and leave the tensor alone (raised=%s)' % (what, raised), case={'n': n, 'hist': hist})
            continue
        if not ctx.check(not raised, 'orth:raises', '%s: valid mode rejected' % what, case={'n': n, 'hist': hist}):
            return
        if not ctx.check(F.is_wellformed(Z, n), 'orth:wellformed', '%s: result malformed' % what, case={'n': n, 'hist': hist}):
            return
        # frame condition / freshness
        if op in ('left', 'right'):
            touched = set(step['touched'])
            if inplace:
                ok = Z is Y and all(np.array_equal(Y[k], keep[k]) and id(Y[k]) == ids[k] for k in range(d) if k not in touched)
                ctx.check(ok, 'orth:frame', '%s: cores other than %s changed, or another list returned' % (what, sorted(touched)), case={'n': n, 'hist': hist})
            else:
                ok = Z is not Y and all(np.array_equal(a, b) for a, b in zip(Y, keep)) and not any(np.shares_memory(a, b) for a in Z for b in Y)
                ctx.check(ok, 'orth:copy', '%s: argument modified or result aliases it' % what, case={'n': n, 'hist': hist})
                ok2 = all(np.array_equal(Z[k], keep[k]) for k in range(d) if k not in touched)
                ctx.check(ok2, 'orth:frame', '%s: cores other than %s differ from the input' % (what, sorted(touched)), case={'n': n, 'hist': hist})
        else:
            ok = Z is not Y and all(np.array_equal(a, b) for a, b in zip(Y, keep)) and not any(np.shares_memory(a, b) for a in Z for b in Y)
            ctx.check(ok, 'orth:copy', '%s: argument modified or result aliases it' % what, case={'n': n, 'hist': hist})
        # ranks: never above the rule's value (no rank grows, cut to what a core can carry)
        rz = [1] + [G.shape[2] for G in Z]
        ctx.check(all(a <= b for a, b in zip(rz, step['r'])), 'orth:ranks', '%s: ranks %s exceed %s' % (what, rz, step['r']), case={'n': n, 'hist': hist})
        # statuses promised by the specification
        for k, s_ in enumerate(step['st']):
            if s_ == 'L':
                ctx.check(is_left_orth(Z[k]), 'orth:left-orthonormal', '%s: core %d does not have orthonormal columns' % (what, k), case={'n': n, 'hist': hist})
            elif s_ == 'R':
                ctx.check(is_right_orth(Z[k]), 'orth:right-orthonormal', '%s: core %d does not have orthonormal rows' % (what, k), case={'n': n, 'hist': hist})
        ctx.check(dense_close(F.dense(Z), D0, scale), 'orth:dense', '%s: the denoted tensor changed by %.2e (scale %.2e)' % (what, np.abs(F.dense(Z) - D0).max(), scale),
                  case={'n': n, 'hist': hist})
        if op == 'sweep':
            nz = np.linalg.norm(Z[i])
            ctx.check(abs(nz - np.linalg.norm(D0)) <= 1e-9 * (np.linalg.norm(D0) + scale * 1e-3), 'orth:pivot-norm',
                      '%s: the pivot core does not carry the norm (%.6g vs %.6g)' % (what, nz, np.linalg.norm(D0)), case={'n': n, 'hist': hist})
        Y = Z


def check_shared(ctx, rng, count):
    """Single steps on lists in which ONE ndarray object (Fortran- or C-ordered) fills every interior slot: an in-place
    step rebinds two slots of the list and must leave the shared object itself - still referenced by the other slots -
    untouched; a copying step must leave every slot alone."""
    for t in range(count):
        d = int(rng.integers(4, 8))
        nk = int(rng.integers(1, 4))
        rho = int(rng.choice([1, 1, 2, 3]))
        order = 'F' if t % 3 else 'C'
        G = np.array(rng.normal(size=(rho, nk, rho)), order=order)
        A = np.array(rng.normal(size=(1, nk, rho)), order=order)
        B = np.array(rng.normal(size=(rho, nk, 1)), order=order)
        if rho == 1:
            A = B = G
        Y = [A] + [G] * (d - 2) + [B]
        D0 = F.dense(Y)
        scale = float(np.prod([np.linalg.norm(c_) for c_ in Y])) + 1e-300
        op = ['left', 'right'][t % 2]
        i = int(rng.integers(0, d - 1)) if op == 'left' else int(rng.integers(1, d))
        inplace = bool((t // 2) % 2)
        touched = {i, i + 1} if op == 'left' else {i - 1, i}
        keep = [c_.copy() for c_ in Y]
        objs = list(Y)
        fn = teneva.orthogonalize_left if op == 'left' else teneva.orthogonalize_right
        what = '%s(%d) %s on a list sharing one %s-ordered core object (d=%d, n=%d, rank %d)' % (op, i, 'inplace' if inplace else 'copy', order, d, nk, rho)
        ctx.case(key=('shared', d, nk, rho, order, op, i, inplace), nontrivial=True)
        Z = fn(Y, i, inplace=inplace)
        if not ctx.check(F.is_wellformed(Z, [nk] * d), 'orth:wellformed', '%s: result malformed' % what):
            continue
        ok = all(np.array_equal(objs[k], keep[k]) for k in range(d))
        ctx.check(ok, 'orth:frame', '%s: the shared core object was written to (it is still referenced by slots other than %s)' % (what, sorted(touched)),
                  case={'d': d, 'n': nk, 'rho': rho, 'op': op, 'i': i, 'inplace': inplace, 'order': order})
        if inplace:
            ctx.check(Z is Y and all(Y[k] is objs[k] for k in range(d) if k not in touched), 'orth:frame', '%s: slots other than %s were rebound' % (what, sorted(touched)))
        else:
            ctx.check(Z is not Y and all(Y[k] is objs[k] for k in range(d)), 'orth:copy', '%s: the argument list was changed' % what)
        ctx.check(dense_close(F.dense(Z), D0, scale), 'orth:dense', '%s: the denoted tensor changed' % what)


KINDS = ['generic', 'deficient', 'scaled', 'integer', 'fortran', 'nearorth-L', 'shared', 'nearorth-R']


def _prog_worker(task):
    from . import common
    j, pr, seed = task
    rec = common.Recorder()
    rng = np.random.default_rng(seed)
    kind = KINDS[j % len(KINDS)]
    inplace = bool(j % 2)
    eff = sum(1 for s in pr['hist'][1:] if not s['rejected'])
    rec.case(key=(pr['n'], repr(pr['hist']), kind, inplace), nontrivial=kind in ('deficient', 'scaled') or eff >= 2 or max(pr['hist'][0]['r']) >= 5,
             sample={'n': pr['n'], 'program': [{'op': s['op'], 'i': s['i'], 'rejected': s['rejected'], 'st': s['st'], 'r': s['r']} for s in pr['hist']]} if j < 2 else None)
    run_program(rec, pr['n'], pr['hist'], rng, kind, inplace)
    return rec.records


def record_sweep(Y, k, stab):
    ev = []
    oL, oR, oS = T_MOD.orthogonalize_left, T_MOD.orthogonalize_right, teneva.core_stab
    cur = {'Z': None}

    def wl(Z, i, inplace=False):
        cur['Z'] = Z
        out = oL(Z, i, inplace=inplace)
        ev.append(dict(ev='left', i=int(i)))
        return out

    def wr(Z, i, inplace=False):
        cur['Z'] = Z
        out = oR(Z, i, inplace=inplace)
        ev.append(dict(ev='right', i=int(i)))
        return out

    def ws(G, p0=0, thr=1.E-100):
        Z = cur['Z']
        idx = [j for j in range(len(Z))] if Z is not None else []
        which = [j for j in idx if Z[j] is G]
        ev.append(dict(ev='stab', i=int(which[0]) if which else -9))
        return oS(G, p0, thr)
    T_MOD.orthogonalize_left, T_MOD.orthogonalize_right, teneva.core_stab = wl, wr, ws
    try:
        out = teneva.orthogonalize(Y, k, use_stab=stab)
    finally:
        T_MOD.orthogonalize_left, T_MOD.orthogonalize_right, teneva.core_stab = oL, oR, oS
    return ev, out


def run(ctx):
    ctx.rule = ('cases = (program of single steps / sweeps emitted by TLC, tensor kind, inplace flag) + traced orthogonalize calls; '
                'non-trivial = rank-deficient / over-ranked / scaled tensors or programs with >= 2 effective steps')
    ctx.assumptions = ['orthonormality and dense preservation at 1e-9 relative to the product of the core norms',
                       'ranks are compared with <= the rule min(r*n, r) (a rank-revealing factorisation may cut more)']
    quick = ctx.tier == 'quick'
    res = tlc.run('Orth', cfg='Orth.cfg' if quick else 'Orth_t.cfg', workers=16, timeout=3000)
    ctx.add_tlc(res, 'Orth: all programs of single steps and sweeps')
    rng = np.random.default_rng(ctx.seed)
    progs = res.json
    if quick and len(progs) > 3000:
        progs = [progs[j] for j in rng.permutation(len(progs))[:3000]]
    kinds = KINDS
    from . import common
    common.pmap(ctx, _prog_worker, [(j, pr, int(ctx.seed * 1000003 + j)) for j, pr in enumerate(progs)])
    check_shared(ctx, rng, 200 if quick else 2000)
    # traced sweeps with / without stabilisation
    trs, metas = [], []
    for t in range(240 if quick else 2000):
        d = int(rng.integers(2, 7))
        n = [int(x) for x in rng.integers(1, 4, size=d)]
        r = [1] + [int(x) for x in rng.choice([1, 2, 5], size=d - 1)] + [1]
        if t % 12 == 7:
            # one step beyond the small scope: long chains, modes up to 30, ranks up to 20
            d = int(rng.integers(8, 13))
            n = [int(x) for x in rng.integers(1, 3, size=d)]
            for pos_ in rng.choice(d, size=2, replace=False):
                n[int(pos_)] = int(rng.integers(8, 31))           # dense reference stays below ~10^6 entries
            r = [1] + [int(x) for x in rng.integers(1, 21, size=d - 1)] + [1]
        kind = kinds[t % len(kinds)]
        Y = make_tt(rng, n, r, kind)
        k = int(rng.integers(0, d))
        stab = bool(t % 2)
        S = 0
        base = [G.copy() for G in Y]
        if stab and t % 4 == 1:
            # huge and tiny scales as exact powers of two: Y = 2^S * base, compared exactly through the exponent
            kind = 'pow2-extreme'
            Y = make_tt(rng, n, r, 'generic')
            base = [G.copy() for G in Y]
            sh = [int(x) for x in rng.choice([0, 26, -26, 300, 450], size=d)]      # adjacent products stay representable
            # at most one core below core_stab's documented threshold 1e-100 (such a core is passed through unscaled)
            sh[int(rng.integers(d))] = -500
            if t % 8 == 5:
                # long chains of uniformly huge / tiny cores: every core is representable, the product over one side of
                # the pivot is not (what stabilisation exists for); pivots at both ends so that either sweep is long
                d = int(rng.integers(6, 10))
                n = [int(x) for x in rng.integers(1, 3, size=d)]
                r = [1] + [int(x) for x in rng.choice([1, 2, 3], size=d - 1)] + [1]
                Y = make_tt(rng, n, r, 'generic')
                base = [G.copy() for G in Y]
                sh = [int(rng.choice([-150, 200, -100, 130]))] * d
                k = int(rng.choice([0, 1, d - 2, d - 1]))
            if t % 16 == 1:
                # one core far above the square root of the double range (entries ~2^600 .. 2^900, squares overflow),
                # the others of order one: every core and the tensor itself are representable
                sh = [0] * d
                sh[int(rng.integers(d))] = int(rng.choice([600, 900, 520]))
            S = int(sum(sh))
            Y = [G * 2.0 ** s_ for G, s_ in zip(Y, sh)]
        elif (not stab) and t % 8 == 2 and d >= 2:
            # without stabilisation: a huge core (2^600) balanced by a tiny one (2^-600), the tensor is of order one
            kind = 'pow2-balanced'
            Y = make_tt(rng, n, r, 'generic')
            base = [G.copy() for G in Y]
            sh = [0] * d
            a_, b_ = [int(x) for x in rng.choice(d, size=2, replace=False)]
            sh[a_], sh[b_] = 600, -600
            Y = [G * 2.0 ** s_ for G, s_ in zip(Y, sh)]
        keep = [G.copy() for G in Y]
        try:
            ev, out = record_sweep(Y, [k, np.int64(k), np.int32(k)][t % 3], stab)
        except Exception as ex:
            ctx.violation('orthogonalize:raises', 'orthogonalize(k=%d, use_stab=%s) raised %s: %s (n=%s, kind %s)' % (k, stab, type(ex).__name__, ex, n, kind),
                          case={'n': n, 'r': r, 'k': k, 'stab': stab, 'kind': kind})
            continue
        Z, p = out if stab else (out, 0)
        D0 = F.dense(base)
        p = p - S if kind == 'pow2-extreme' else p
        scale = float(np.prod([np.linalg.norm(G) for G in base])) + 1e-300
        wf = F.is_wellformed(Z, n)
        L_ok = wf and all(is_left_orth(Z[j]) for j in range(k))
        R_ok = wf and all(is_right_orth(Z[j]) for j in range(k + 1, d))
        dense_ok = wf and abs(p) < 1000 and dense_close(F.dense(Z) * 2.0 ** p, D0, scale)
        norm_ok = wf and abs(p) < 1000 and abs(safe_norm(Z[k], p) - np.linalg.norm(D0)) <= 1e-9 * (np.linalg.norm(D0) + 1e-3 * scale)
        p_ok = (not stab) or (isinstance(p, (int, np.integer)) and abs(p) < 1000 and wf and all(np.abs(G).max() < 2. + 1e-12 for G in Z))
        fresh_ok = all(np.array_equal(a, b) for a, b in zip(Y, keep)) and wf and not any(np.shares_memory(a, b) for a in Z for b in Y)
        rr = list(r)
        for j in range(k):
            rr[j + 1] = min(rr[j] * n[j], rr[j + 1])
        for j in range(d - 1, k, -1):
            rr[j] = min(rr[j], n[j] * rr[j + 1])
        rank_ok = wf and all(int(Z[j].shape[2]) <= rr[j + 1] for j in range(d))
        post_ok = bool(L_ok and R_ok and dense_ok and norm_ok and p_ok and fresh_ok and rank_ok)
        ev.append(dict(ev='end', r=[1] + [int(G.shape[2]) for G in Z] if wf else [99] * (d + 1), L_ok=bool(L_ok), R_ok=bool(R_ok), dense_ok=bool(dense_ok),
                       norm_ok=bool(norm_ok), p_ok=bool(p_ok), fresh_ok=bool(fresh_ok)))
        trs.append(dict(n=n, r=r, k=k, stab=stab, ev=ev))
        metas.append(dict(n=n, r=r, k=k, stab=stab, kind=kind, post_ok=post_ok))
    verdicts, st, gen, runs = traces.validate('Trace_Orth', trs, cfg='Trace_Orth.cfg', diag_cfg='Trace_Orth_diag.cfg')
    for r_ in runs:
        ctx.add_tlc(r_, 'trace validation (Trace_Orth), %d traces' % len(trs))
    for tr, v, mt in zip(trs, verdicts, metas):
        ctx.case(key=repr(mt), nontrivial=mt['stab'] or mt['kind'] in ('deficient', 'scaled'), sample={'sweep': mt, 'events': tr['ev']} if mt['stab'] and len(tr['ev']) > 4 else None)
        if v['ok']:
            ctx.trace_ok()
        elif mt['post_ok']:
            # every postcondition the property states holds; only the schedule of inner single steps differs from the
            # specification's (an implementation detail the property does not fix): reported in the evidence, not a verdict
            ctx.notes['schedule_deviations'] = ctx.notes.get('schedule_deviations', 0) + 1
        else:
            ctx.violation('orthogonalize:trace', 'orthogonalize(k=%d, use_stab=%s) is not the specified composition of single steps / does not meet its postconditions (%s); %s'
                          % (mt['k'], mt['stab'], v['why'], mt), case={'meta': mt, 'trace': tr})
    # out-of-range pivots
    Y = teneva.rand([2, 3, 2], 2, seed=1)
    for k in (-1, 3, 7):
        for stab in (False, True):
            raised = False
            try:
                teneva.orthogonalize(Y, k, use_stab=stab)
            except ValueError:
                raised = True
            ctx.case(key=('pivot', k, stab), nontrivial=True)
            ctx.check(raised, 'orthogonalize:reject', 'orthogonalize(k=%d) must raise ValueError' % k)


def selftest(ctx):
    from . import selftest as ST
    return ST.orth(ctx)
