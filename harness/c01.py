"""C01 - TT evaluation and algebra agree elementwise with dense tensor algebra.

TLC (Algebra.tla over TT.tla) computes in exact integers
  * mode "all": every observer of EVERY tensor with entries in {-1,0,1} of the
    smallest profile (6561 tensors),
  * mode "pair": every binary operation on every ordered pair of a palette
    covering all (shape, rank profile) classes, and checks the structured
    operators (block concatenation / Kronecker cores) against the dense ones,
  * mode "prog": programs over a 3-register workspace (simulation), with the
    denotation of the written register after every step.
Every emitted case is replayed through teneva with float64 arrays holding the
same integers; results must agree bit-for-bit.  The same cases are then
re-run with generic float cores against an independent numpy reference
(tolerance: rounding of a sum of products, c*eps*dense(|Y|)).
"""
import itertools
from fractions import Fraction

import numpy as np

import teneva

from . import families as F
from . import tlc


def cores_of(js, dtype=float, order=None):
    out = []
    for c in js:
        G = np.array(c['v'], dtype=dtype).reshape(c['r1'], c['n'], c['r2'])
        if order == 'F':
            G = np.asfortranarray(G)
        out.append(G)
    return out


def eq(a, b):
    a = np.asarray(a, dtype=float)
    b = np.asarray(b, dtype=float)
    return a.shape == b.shape and np.array_equal(a, b)


def check_unary(ctx, c, Y, tag):
    """All single-tensor observers against TLC's exact values."""
    n = c['n']
    d = len(n)
    full = np.array(c['full' if 'full' in c else 'full1'], dtype=float).reshape(n)
    bad = []
    Fd = teneva.full(Y)
    if not (np.asarray(Fd).shape == tuple(n) and eq(np.asarray(Fd), full)):
        bad.append('full')
    I = np.array(list(itertools.product(*[range(k) for k in n])), dtype=int)
    if not eq(teneva.get_many(Y, I), full.reshape(-1)):
        bad.append('get_many')
    if not eq(teneva.get(Y, I), full.reshape(-1)):
        bad.append('get(batch)')
    if not eq(teneva.get_many(Y, I.tolist()), full.reshape(-1)):
        bad.append('get_many(list)')
    for i in (I[0], I[-1], I[len(I) // 2]):
        v = teneva.get(Y, i)
        if not (np.ndim(v) == 0 and float(v) == full[tuple(i)]):
            bad.append('get%s' % (tuple(i),))
        v2 = teneva.get(Y, list(i))
        if not float(v2) == full[tuple(i)]:
            bad.append('get(list)')
    s = c['sum' if 'sum' in c else 'sum1']
    if float(teneva.sum(Y)) != float(s):
        bad.append('sum')
    size = int(np.prod(n))
    if abs(teneva.mean(Y) - s / size) > 4 * np.finfo(float).eps * max(1., abs(s / size)) * d:
        bad.append('mean')
    # weighted mean with integer weights w_k[i] = (i+1) + (k+1)
    P = [np.array([(i + 1) + (k + 1) for i in range(n[k])], dtype=float) for k in range(d)]
    ws = c['wsum' if 'wsum' in c else 'wsum1']
    if float(teneva.mean(Y, P)) != float(ws):
        bad.append('mean(P)')
    n2 = c['norm2' if 'norm2' in c else 'norm2_1']
    if float(teneva.mul_scalar(Y, Y)) != float(n2):
        bad.append('mul_scalar(Y,Y)')
    if abs(teneva.norm(Y) - np.sqrt(n2)) > 4 * np.finfo(float).eps * np.sqrt(n2):
        bad.append('norm')
    if [int(x) for x in teneva.shape(Y)] != list(n):
        bad.append('shape')
    rk = c['ranks' if 'ranks' in c else 'ranks1']
    if [int(x) for x in teneva.ranks(Y)] != list(rk):
        bad.append('ranks')
    sz = c['size' if 'size' in c else 'size1']
    if int(teneva.size(Y)) != sz:
        bad.append('size')
    # effective rank: defining equation (d = 2: the rank itself)
    er = float(teneva.erank(Y))
    if d == 2:
        if er != rk[1]:
            bad.append('erank(d=2)')
    else:
        lhs = n[0] * er + sum(n[1:d - 1]) * er * er + n[d - 1] * er
        if abs(lhs - sz) > 1e-9 * sz:
            bad.append('erank')
    # interface vectors, unnormalised (exact integers), both directions
    ifr = teneva.interface(Y, norm=None, ltr=False)
    ifl = teneva.interface(Y, norm=None, ltr=True)
    if not all(eq(np.ravel(a), b) for a, b in zip(ifr, c['ifr'])):
        bad.append('interface(ltr=False)')
    if not all(eq(np.ravel(a), b) for a, b in zip(ifl, c['ifl'])):
        bad.append('interface(ltr=True)')
    # natural normalisation: division by the mode sizes of the modes already contracted
    nat_r = teneva.interface(Y, norm='natural', ltr=False)
    nat_l = teneva.interface(Y, norm='natural', ltr=True)
    for k in range(d + 1):
        den_r = float(np.prod(n[k:])) if k < d else 1.
        den_l = float(np.prod(n[:k])) if k > 0 else 1.
        if np.abs(np.ravel(nat_r[k]) - np.array(c['ifr'][k], dtype=float) / den_r).max() > 1e-14 * (1 + np.abs(c['ifr'][k]).max()):
            bad.append('interface(natural, ltr=False)[%d]' % k)
            break
        if np.abs(np.ravel(nat_l[k]) - np.array(c['ifl'][k], dtype=float) / den_l).max() > 1e-14 * (1 + np.abs(c['ifl'][k]).max()):
            bad.append('interface(natural, ltr=True)[%d]' % k)
            break
    # linalg normalisation: directions
    lin_r = teneva.interface(Y, norm='linalg', ltr=False)
    for k in range(d + 1):
        ref = np.array(c['ifr'][k], dtype=float)
        nr = np.linalg.norm(ref)
        if nr > 0 and all(np.linalg.norm(np.array(c['ifr'][j], dtype=float)) > 0 for j in range(k, d + 1)):
            if np.abs(np.ravel(lin_r[k]) - ref / nr).max() > 1e-12:
                bad.append('interface(linalg)[%d]' % k)
                break
    # interface at a multi-index (+ weights), and get_and_grad
    idx = [k - 1 for k in n]
    ir = teneva.interface(Y, i=idx, norm=None, ltr=False)
    il = teneva.interface(Y, i=idx, norm=None, ltr=True)
    if not all(eq(np.ravel(a), b) for a, b in zip(ir, c['idxr'])):
        bad.append('interface(i, ltr=False)')
    if not all(eq(np.ravel(a), b) for a, b in zip(il, c['idxl'])):
        bad.append('interface(i, ltr=True)')
    irp = teneva.interface(Y, P=P, i=idx, norm=None, ltr=False)
    w = 1.
    okp = True
    for k in range(d, -1, -1):
        if k < d:
            w *= P[k][idx[k]]
        okp = okp and eq(np.ravel(irp[k]), np.array(c['idxr'][k], dtype=float) * w)
    if not okp:
        bad.append('interface(P, i)')
    ifp = teneva.interface(Y, P=P, norm=None, ltr=True)
    if float(np.ravel(ifp[-1])[0]) != float(ws):
        bad.append('interface(P, ltr=True)[-1]')
    val, grad = teneva.get_and_grad(Y, idx)
    if float(val) != full[tuple(idx)]:
        bad.append('get_and_grad value')
    for k in range(d):
        G = np.zeros(Y[k].shape)
        G[:, idx[k], :] = np.outer(np.array(c['idxl'][k], dtype=float), np.array(c['idxr'][k + 1], dtype=float))
        if not eq(grad[k], G):
            bad.append('get_and_grad core %d' % k)
            break
    # accuracy on data (exact data -> 0; shifted data -> known ratio)
    y = full.reshape(-1)
    if np.linalg.norm(y) > 0:
        if teneva.accuracy_on_data(Y, I, y) != 0.0:
            bad.append('accuracy_on_data(exact)')
        a = teneva.accuracy_on_data(Y, I, y + 1.0)
        ref = np.linalg.norm(np.ones_like(y)) / np.linalg.norm(y + 1.0) if np.linalg.norm(y + 1.0) > 0 else None
        if ref is not None and abs(a - ref) > 1e-14 * max(1., ref):
            bad.append('accuracy_on_data(shifted)')
    if teneva.accuracy_on_data(Y, None, None) != -1.:
        bad.append('accuracy_on_data(None)')
    Z = teneva.copy(Y)
    if not all(eq(a_, b_) and not np.shares_memory(a_, b_) for a_, b_ in zip(Y, Z)):
        bad.append('copy')
    for b_ in bad:
        ctx.violation('algebra:' + b_.split('[')[0].split('(')[0], '%s: %s differs from the dense reference (n=%s ranks=%s)' % (tag, b_, n, rk), case=c)


def check_pair(ctx, c, order=None):
    n = c['n']
    Y1, Y2 = cores_of(c['cores1'], order=order), cores_of(c['cores2'], order=order)
    keep = [G.copy() for G in Y1 + Y2]
    bad = []
    f = lambda key: np.array(c[key], dtype=float).reshape(n)
    for name, fn in (('add', teneva.add), ('sub', teneva.sub), ('mul', teneva.mul)):
        Z = fn(Y1, Y2)
        if not (F.is_wellformed(Z, n) and eq(F.dense(Z), f(name))):
            bad.append(name)
    Z = teneva.outer(Y1, Y2)
    if not (F.is_wellformed(Z, n + n) and eq(F.dense(Z), np.array(c['outer'], dtype=float).reshape(n + n))):
        bad.append('outer')
    Z = teneva.outer_many([Y1, Y2, Y1])
    if not eq(F.dense(Z), np.multiply.outer(np.array(c['outer'], dtype=float).reshape(n + n), f('full1'))):
        bad.append('outer_many')
    if float(teneva.mul_scalar(Y1, Y2)) != float(c['dot']):
        bad.append('mul_scalar')
    if teneva.mul_scalar(Y1, Y2, use_stab=True)[0] * 2.0 ** teneva.mul_scalar(Y1, Y2, use_stab=True)[1] != float(c['dot']):
        bad.append('mul_scalar(stab)')
    acc = teneva.accuracy(Y1, Y2)
    if c['norm2_2'] == 0:
        if acc != -1:
            bad.append('accuracy(sentinel)')
    else:
        ref = np.sqrt(c['dist2'] / c['norm2_2'])
        if abs(acc - ref) > 1e-12 * max(ref, 1e-3):
            bad.append('accuracy')
    if c['norm2_2'] > 0:
        a2 = teneva.accuracy(f('full1'), f('full2'))
        if abs(a2 - np.sqrt(c['dist2'] / c['norm2_2'])) > 1e-12:
            bad.append('accuracy(dense)')
    # number operands
    # ordinary numbers and the magnitude ladder around the constant constructor's 1e-16 window
    for num in (3, -2.5, 0, 1e-17, -3e-20, 1e-16, 2e-16, 1e-300, -7e17):
        for name, fn, ref in (('add', teneva.add, f('full1') + num), ('sub', teneva.sub, f('full1') - num),
                              ('mul', teneva.mul, f('full1') * num)):
            Z = fn(Y1, num)
            if not (F.is_wellformed(Z, n) and np.abs(F.dense(Z) - ref).max() <= 16 * np.finfo(float).eps * (np.abs(ref).max() + abs(num))):
                bad.append('%s(Y, %s)' % (name, num))
        for name, fn, ref in (('add', teneva.add, num + f('full1')), ('sub', teneva.sub, num - f('full1')),
                              ('mul', teneva.mul, num * f('full1'))):
            Z = fn(num, Y1)
            if not (F.is_wellformed(Z, n) and np.abs(F.dense(Z) - ref).max() <= 16 * np.finfo(float).eps * (np.abs(ref).max() + abs(num))):
                bad.append('%s(%s, Y)' % (name, num))
    if teneva.add(2, 3) != 5 or teneva.mul(2, 3.) != 6. or teneva.sub(2, 3) != -1:
        bad.append('number-number')
    Z = teneva.add_many([Y1, Y2, 2., Y1], e=1e-14)
    ref = 2 * f('full1') + f('full2') + 2.
    if not (F.is_wellformed(Z, n) and np.abs(F.dense(Z) - ref).max() <= 1e-10 * (1 + np.abs(ref).max())):
        bad.append('add_many')
    if not all(eq(a_, b_) for a_, b_ in zip(Y1 + Y2, keep)):
        bad.append('operand modified')
    for b_ in bad:
        ctx.violation('algebra:' + b_.split('(')[0], 'pair: %s differs from the dense reference (n=%s ranks %s / %s)'
                      % (b_, n, c['ranks1'], c['ranks2']), case=c)
    # generic float cores, independent numpy reference
    rng = np.random.default_rng(abs(hash((tuple(n), tuple(c['ranks1']), tuple(c['ranks2'])))) % (2 ** 32))
    A = [rng.normal(size=G.shape) for G in Y1]
    B = [rng.normal(size=G.shape) for G in Y2]
    a, b = F.dense(A), F.dense(B)
    aa, bb = F.dense([np.abs(G) for G in A]), F.dense([np.abs(G) for G in B])
    eps = np.finfo(float).eps
    for name, fn, ref, scale in (('add', teneva.add, a + b, aa + bb), ('sub', teneva.sub, a - b, aa + bb),
                                 ('mul', teneva.mul, a * b, aa * bb)):
        Z = fn(A, B)
        if not np.all(np.abs(F.dense(Z) - ref) <= 64 * eps * len(n) * scale * max(c['ranks1']) * max(c['ranks2'])):
            ctx.violation('algebra:' + name, 'float cores: %s deviates from the dense reference beyond the rounding of a sum of products' % name, case=c)
    if abs(teneva.mul_scalar(A, B) - np.sum(a * b)) > 256 * eps * np.sum(aa * bb):
        ctx.violation('algebra:mul_scalar', 'float cores: scalar product deviates', case=c)


def replay_program(ctx, h):
    regs = {}
    prev = {}
    inexact = {}     # registers derived from number (+/-) tensor: the constant tensor carries a d-th root
    scale = {}
    prev_kind = {}
    for stepno, s in enumerate(h['hist']):
        op = s['op']
        if op == 'load':
            regs[s['dst']] = cores_of(s['cores'])
        elif op == 'num':
            regs[s['dst']] = s['c']
        elif op == 'copy':
            regs[s['dst']] = teneva.copy(regs[s['a']])
        elif op == 'outer':
            regs[s['dst']] = teneva.outer(regs[s['a']], regs[s['b']])
        else:
            fn = {'add': teneva.add, 'sub': teneva.sub, 'mul': teneva.mul}[op]
            regs[s['dst']] = fn(regs[s['a']], regs[s['b']])
        exp = s['exp']
        prev[s['dst']] = exp
        if op in ('load', 'num'):
            inexact[s['dst']] = False
        elif op == 'copy':
            inexact[s['dst']] = inexact[s['a']]
        else:
            ka, kb = prev_kind.get(s['a']), prev_kind.get(s['b'])
            mixed = op in ('add', 'sub') and {ka, kb} == {'num', 'tt'}
            inexact[s['dst']] = bool(mixed or inexact.get(s['a']) or inexact.get(s['b']))
        prev_kind[s['dst']] = exp['kind']
        if exp['kind'] == 'tt':
            scale[s['dst']] = max(1., float(np.abs(exp['t']).max())) * (stepno + 2) ** 2
        # every register must denote what the specification says (not only the written one)
        for k, e in prev.items():
            v = regs[k]
            if e['kind'] == 'num':
                ok = isinstance(v, (int, float)) and float(v) == float(e['c'])
            else:
                ok = (not isinstance(v, (int, float))) and F.is_wellformed(v, e['n'])
                if ok:
                    ref = np.array(e['t'], dtype=float).reshape(e['n'])
                    ok = eq(F.dense(v), ref) if not inexact[k] else \
                        bool(np.abs(F.dense(v) - ref).max() <= 64 * np.finfo(float).eps * scale[k] * 100)
            if not ok:
                return 'step %d (%s): register %d does not denote the specified tensor' % (stepno + 1, op, k)
    return None


def run(ctx):
    ctx.rule = ('cases = TLC-emitted tensors (mode all), ordered pairs (mode pair) and programs (mode prog); '
                'distinct non-trivial = distinct (shape, rank profile, operation sequence / observer set) with some rank >= 2 '
                'or a program containing at least one binary operation')
    ctx.assumptions = ['integer cores with entries in {-2..2}; d<=4, n<=3, ranks<=3 (products up to 9)',
                       'float extension compared with an independent numpy reference at c*eps*dense(|Y|)']
    quick = ctx.tier == 'quick'
    res = tlc.run('Algebra', cfg='Algebra_all.cfg', workers=16, timeout=1800)
    ctx.add_tlc(res, 'all tensors with entries {-1,0,1}, shape (2,2), rank 2: every observer')
    ctx.exhaustive = None
    stride = 3 if quick else 1
    for j, c in enumerate(res.json):
        if j % stride:
            continue
        Y = cores_of(c['cores'], order=['C', 'F'][j % 2])
        check_unary(ctx, c, Y, 'all')
        ctx.case(key=('all', c['cores']), nontrivial=True, sample={'cores': c['cores'], 'full': c['full'], 'sum': c['sum']} if j < 2 else None)
    res = tlc.run('Algebra', cfg='Algebra_pair.cfg', workers=16, timeout=1800)
    ctx.add_tlc(res, 'palette pairs: structured operators = dense operators; all binary routines')
    check_profiles(ctx, res.json, quick)
    for j, c in enumerate(res.json):
        check_pair(ctx, c, order=['C', 'F', None][j % 3])
        if c['cores1'] == c['cores2'] or j % 7 == 0:
            check_unary(ctx, c, cores_of(c['cores1']), 'pair')
        if j % 7 == 3:
            # the observers read the cores only: integer-typed cores denote the same tensor (the binary routines scale copies
            # in place and are defined for floating cores only, so they are not lifted)
            check_unary(ctx, c, cores_of(c['cores1'], dtype=[np.int64, np.int32][(j // 7) % 2]), 'pair-int')
        ctx.case(key=('pair', c['cores1'], c['cores2']), nontrivial=max(c['ranks1'] + c['ranks2']) >= 2,
                 sample={'n': c['n'], 'ranks1': c['ranks1'], 'ranks2': c['ranks2'], 'dot': c['dot']} if j < 2 else None)
    num = 12 if quick else 120
    res = tlc.run('Algebra', cfg='Algebra_prog.cfg', workers=8, timeout=1800, simulate='num=%d' % num, depth=7, seed=ctx.seed + 1)
    ctx.add_tlc(res, 'programs over 3 registers, depth 6 (simulation, every generated successor emitted)')
    seen = set()
    for h in res.json:
        key = repr([(s['op'], s.get('a'), s.get('b'), s['dst'], s.get('c'), repr(s.get('cores'))) for s in h['hist']])
        if key in seen:
            continue
        seen.add(key)
        msg = replay_program(ctx, h)
        nb = sum(1 for s in h['hist'] if s['op'] in ('add', 'sub', 'mul', 'outer'))
        ctx.case(key=key, nontrivial=nb >= 1,
                 sample={'program': [{k: v for k, v in s.items() if k not in ('cores', 'exp')} for s in h['hist']]} if len(seen) < 3 else None)
        if msg:
            ctx.violation('algebra:program', msg, case=h)
    if not seen:
        raise tlc.TlcError('no program emitted')
    check_shapes(ctx, quick)
    check_data_accuracy(ctx, quick)
    check_large(ctx, quick)
    check_long_batches(ctx, quick)
    check_huge(ctx, quick)


PROFILES = ('tiny-interior', 'tiny-last', 'tiny-first', 'lead-big-tiny', 'alternating', 'uniform-big')


def shift_profile(rng, d, kind):
    """per-core power-of-two exponents; at most one core below core_stab's documented threshold (entries < 1e-50, i.e.
    Gram entries < 1e-100), and no core after it scaled down, so that the documented behaviour is exact"""
    s = [0] * d
    if kind == 'tiny-interior':
        s[int(rng.integers(1, max(2, d - 1)))] = -int(rng.choice([200, 300, 450]))
    elif kind == 'tiny-last':
        s[d - 1] = -int(rng.choice([170, 250, 400]))
    elif kind == 'tiny-first':
        s[0] = -int(rng.choice([200, 450]))
    elif kind == 'lead-big-tiny':
        k = int(rng.integers(1, d))
        for j in range(k):
            s[j] = int(rng.choice([3, 30, 90]))
        s[k] = -int(rng.choice([200, 400]))
    elif kind == 'alternating':
        s = [(120 if j % 2 == 0 else -120) for j in range(d)]
    elif kind == 'uniform-big':
        s = [int(rng.choice([100, 150]))] * d
    return s


def check_profiles(ctx, pairs, quick):
    """Frobenius norm / scalar product / relative accuracy on integer tensors whose cores carry exact power-of-two
    scales (the dense tensor need not be representable; every expected value is exact through the exponents)."""
    rng = np.random.default_rng(ctx.seed + 77)
    sel = [pairs[j] for j in rng.permutation(len(pairs))[:(120 if quick else 1200)]]
    for t, c in enumerate(sel):
        n = c['n']
        d = len(n)
        A, B = cores_of(c['cores1']), cores_of(c['cores2'])
        a, b = F.dense(A), F.dense(B)
        N1, N2, dot, dist2 = float(np.sum(a * a)), float(np.sum(b * b)), float(np.sum(a * b)), float(np.sum((a - b) ** 2))
        kind = PROFILES[t % len(PROFILES)]
        s = shift_profile(rng, d, kind)
        S = int(sum(s))
        As = [G * 2.0 ** e_ for G, e_ in zip(A, s)]
        Bs = [G * 2.0 ** e_ for G, e_ in zip(B, s)]
        case = {'cores1': c['cores1'], 'cores2': c['cores2'], 'shifts': s}
        ctx.case(key=('profile', c['cores1'], c['cores2'], s), nontrivial=True, sample={'profile': kind, 'shifts': s, 'n': n} if t < 2 else None)

        def lg(v, p):
            return float(np.log2(v)) + p if v > 0 else None
        v, p = teneva.norm(As, use_stab=True)
        if N1 > 0:
            ctx.check(v > 0 and abs(lg(v, p) - (0.5 * np.log2(N1) + S)) <= 1e-9, 'algebra:norm-stab',
                      'norm(use_stab=True) = %r * 2^%r, exact sqrt(%d) * 2^%d (profile %s %s)' % (v, p, N1, S, kind, s), case=case)
        else:
            ctx.check(v == 0, 'algebra:norm-stab', 'norm(use_stab=True) of a zero tensor = %r * 2^%r' % (v, p), case=case)
        v, p = teneva.mul_scalar(As, Bs, use_stab=True)
        if dot != 0:
            ctx.check(v * dot > 0 and abs(lg(abs(v), p) - (np.log2(abs(dot)) + 2 * S)) <= 1e-9, 'algebra:mul_scalar-stab',
                      'mul_scalar(use_stab=True) = %r * 2^%r, exact %d * 2^%d (profile %s %s)' % (v, p, dot, 2 * S, kind, s), case=case)
        else:
            ctx.check(v == 0, 'algebra:mul_scalar-stab', 'mul_scalar(use_stab=True) = %r * 2^%r, exact 0' % (v, p), case=case)
        # accuracy() answers with its sentinel -1 when the mantissa of the reference norm is below 1e-100, which happens
        # when a core below core_stab's threshold (passed through unscaled) is smaller than 2^-332: outside the family
        acc_defined = min(s) >= -320
        if N2 > 0 and dist2 > 0 and acc_defined:
            acc = teneva.accuracy(As, Bs)
            ref = np.sqrt(dist2 / N2)
            ctx.check(abs(acc - ref) <= 1e-7 * ref, 'algebra:accuracy-scaled', 'accuracy on scaled cores = %r, exact %r (profile %s %s)' % (acc, ref, kind, s), case=case)
        if N1 > 0 and acc_defined:
            acc = teneva.accuracy(teneva.mul(As, 3.), As)
            ctx.check(abs(acc - 2.) <= 1e-7, 'algebra:accuracy-scaled', 'accuracy(3 Y, Y) = %r, exact 2 (profile %s %s)' % (acc, kind, s), case=case)
        # tensors of very different magnitude: accuracy(2^k A, B) = 2^k sqrt(N1 / N2) (1 + O(2^-k)), a finite double for
        # every k used here (2^k spread evenly over the cores, every core entry and every dense entry representable); the
        # routine saturates (1e299) only when its two exponents differ by MORE than 500, i.e. for ratios above 2^500
        if N1 > 0 and N2 > 0 and t % 2 == 0:
            L_ = 0.5 * np.log2(N1 / N2)
            for k_ in (500 - int(np.ceil(L_)), 499 - int(np.ceil(L_)), 470, 300):
                lref = k_ + L_
                if lref > 499.9:
                    continue
                sk = [k_ // d + (1 if j < k_ % d else 0) for j in range(d)]
                Ak = [G * 2.0 ** e_ for G, e_ in zip(A, sk)]
                acc = teneva.accuracy(Ak, B)
                ctx.check(acc > 0 and np.isfinite(acc) and abs(np.log2(acc) - lref) <= 1e-7, 'algebra:accuracy-ratio',
                          'accuracy(2^%d A, B) = %r, exact 2^%d * sqrt(%d / %d) = 2^%.6f (a finite double)' % (k_, acc, k_, N1, N2, lref), case=case)


def check_shapes(ctx, quick):
    """Reported shape / ranks / size / effective rank on shapes and rank profiles of every kind (d = 2..7, first and last
    mode different, non-uniform ranks, ranks above what a core carries): the effective rank is the positive root of
    n_1 r + (n_2 + .. + n_{d-1}) r^2 + n_d r = size (d = 2: the rank itself), and every observer agrees with the dense tensor."""
    rng = np.random.default_rng(ctx.seed + 5)
    for t in range(300 if quick else 3000):
        d = int(rng.integers(2, 8))
        n = [int(x) for x in rng.integers(1, 6, size=d)]
        if t % 3 == 0 and d >= 3 and n[0] == n[-1]:
            n[-1] = n[0] + 1 + int(rng.integers(3))
        r = [1] + [int(x) for x in rng.integers(1, 5, size=d - 1)] + [1]
        Y = [rng.integers(-2, 3, size=(r[k], n[k], r[k + 1])).astype(float) for k in range(d)]
        ctx.case(key=('shape', n, r), nontrivial=d >= 3 and n[0] != n[-1])
        sz = sum(G.size for G in Y)
        bad = []
        if [int(x) for x in teneva.shape(Y)] != n:
            bad.append('shape')
        if [int(x) for x in teneva.ranks(Y)] != r:
            bad.append('ranks')
        if int(teneva.size(Y)) != sz:
            bad.append('size')
        er = float(teneva.erank(Y))
        if d == 2:
            if er != r[1]:
                bad.append('erank(d=2)')
        else:
            lhs = n[0] * er + sum(n[1:d - 1]) * er * er + n[d - 1] * er
            if not (er > 0 and abs(lhs - sz) <= 1e-9 * sz):
                bad.append('erank')
        if int(np.prod(n)) <= 4000:
            Fd = F.dense(Y)
            full = teneva.full(Y)
            if not (np.asarray(full).shape == tuple(n) and eq(full, Fd)):
                bad.append('full')
            I = np.stack([rng.integers(0, k, size=9) for k in n], axis=1)
            if not eq(teneva.get_many(Y, I), Fd[tuple(I.T)]):
                bad.append('get_many')
            if float(teneva.sum(Y)) != float(Fd.sum()):
                bad.append('sum')
            P = [rng.integers(1, 4, size=k).astype(float) for k in n]
            W = P[0]
            for p_ in P[1:]:
                W = np.multiply.outer(W, p_)
            if float(teneva.mean(Y, P)) != float((Fd * W).sum()):
                bad.append('mean(P)')
            ifl = teneva.interface(Y, norm=None, ltr=True)
            ifr = teneva.interface(Y, norm=None, ltr=False)
            if len(ifl) != d + 1 or len(ifr) != d + 1 or float(np.ravel(ifl[-1])[0]) != float(Fd.sum()) or float(np.ravel(ifr[0])[0]) != float(Fd.sum()):
                bad.append('interface')
        # element and gradient: d(entry)/d(core k slice i_k) is the outer product of the left and right interface vectors;
        # cores written partly with integer literals (integer dtype) and partly with non-integers denote the tensor just the same
        if d >= 2 and int(np.prod(n)) <= 4000:
            Ym = [G.astype(np.int64) if (k_ + t) % 2 == 0 else G + 0.5 * (np.arange(G.size).reshape(G.shape) % 2) for k_, G in enumerate(Y)]
            for Yg, tag in ((Y, 'float cores'), (Ym, 'integer-typed and float cores mixed')):
                idx = [int(rng.integers(k)) for k in n]
                val, grad = teneva.get_and_grad(Yg, idx)
                Yf = [np.asarray(G, dtype=float) for G in Yg]
                ref_val = F.dense(Yf)[tuple(idx)]
                okg = abs(float(val) - ref_val) <= 1e-12 * (1 + abs(ref_val)) and len(grad) == d
                for k_ in range(d if okg else 0):
                    L = np.ones((1,))
                    for c_ in range(k_):
                        L = L @ Yf[c_][:, idx[c_], :]
                    Rv = np.ones((1,))
                    for c_ in range(d - 1, k_, -1):
                        Rv = Yf[c_][:, idx[c_], :] @ Rv
                    gk = np.asarray(grad[k_], dtype=float)
                    refg = np.zeros(Yf[k_].shape)
                    refg[:, idx[k_], :] = np.outer(L, Rv)
                    okg = okg and gk.shape == refg.shape and np.abs(gk - refg).max() <= 1e-12 * (1 + np.abs(refg).max())
                if not okg:
                    bad.append('get_and_grad [%s]' % tag)
        for b_ in bad:
            ctx.violation('algebra:' + b_.split('(')[0].split(' [')[0], 'shape %s ranks %s: %s differs from the definition / the dense reference' % (n, r, b_), case={'n': n, 'r': r})


def check_long_batches(ctx, quick):
    """Batches of multi-indices far longer than the tensor has entries (lengths around powers of two, where a routine that
    works in blocks changes its path): every row is an entry of the small dense tensor, for get_many, batched get and
    accuracy_on_data."""
    rng = np.random.default_rng(ctx.seed + 27)
    for m in ([1000, 4097, 65543, 131072 + 3] if quick else [1000, 4097, 8191, 32769, 65535, 65536, 65537, 65543, 131075, 262144 + 17, 1000003]):
        n = [int(x) for x in rng.integers(2, 5, size=3)]
        Y = teneva.rand(n, 2, seed=int(rng.integers(1 << 30)))
        Fd = teneva.full(Y)
        I = np.stack([rng.integers(0, k, size=m) for k in n], axis=1)
        ref = Fd[tuple(I.T)]
        sc = np.abs(Fd).max()
        ctx.case(key=('long-batch', m, n), nontrivial=m > 65536)
        y1 = np.asarray(teneva.get_many(Y, I))
        y2 = np.asarray(teneva.get(Y, I))
        ok = y1.shape == (m,) and y2.shape == (m,) and np.abs(y1 - ref).max() <= 1e-12 * sc and np.abs(y2 - ref).max() <= 1e-12 * sc
        ctx.check(ok, 'algebra:get_many', 'get_many / get on a batch of %d multi-indices (shape %s): %d entries differ from the dense tensor (first at row %s)'
                  % (m, n, int((np.abs(y1 - ref) > 1e-12 * sc).sum()) if y1.shape == (m,) else -1, (np.flatnonzero(np.abs(y1 - ref) > 1e-12 * sc)[:1].tolist() if y1.shape == (m,) else '?')))
        e_ = float(teneva.accuracy_on_data(Y, I, ref + 0.))
        ctx.check(e_ <= 1e-12, 'algebra:accuracy_on_data', 'accuracy_on_data of a tensor on %d of its own entries is %.3g' % (m, e_))


def check_large(ctx, quick):
    """One step beyond the small scope: tensors too large for a dense array (d = 10..14, modes up to 24, ranks up to 12)
    against an independent core-by-core contraction."""
    rng = np.random.default_rng(ctx.seed + 21)
    for t in range(6 if quick else 40):
        d = int(rng.integers(10, 15))
        n = [int(x) for x in rng.integers(2, 25, size=d)]
        r = [1] + [int(x) for x in rng.integers(1, 13, size=d - 1)] + [1]
        Y = [rng.normal(size=(r[k], n[k], r[k + 1])) / np.sqrt(r[k]) for k in range(d)]
        I = np.stack([rng.integers(0, k, size=40) for k in n], axis=1)
        ref = np.empty(len(I))
        for s_, row in enumerate(I):
            v = np.ones((1,))
            for k in range(d):
                v = v @ Y[k][:, row[k], :]
            ref[s_] = v[0]
        sc = np.abs(ref).max() + 1e-300
        ctx.case(key=('large', n, r), nontrivial=True)
        bad = []
        if not np.abs(np.asarray(teneva.get_many(Y, I)) - ref).max() <= 1e-10 * sc:
            bad.append('get_many')
        if not abs(float(teneva.get(Y, I[0])) - ref[0]) <= 1e-10 * sc:
            bad.append('get')
        v = np.ones((1,))
        va = np.ones((1,))
        for k in range(d):
            v = v @ Y[k].sum(axis=1)
            va = va @ np.abs(Y[k]).sum(axis=1)
        if not abs(float(teneva.sum(Y)) - v[0]) <= 1e-10 * va[0]:
            bad.append('sum')
        g = np.ones((1, 1))
        for k in range(d):
            g = np.einsum('ab,aic,bid->cd', g, Y[k], Y[k])
        if not abs(float(teneva.norm(Y)) - np.sqrt(g[0, 0])) <= 1e-10 * np.sqrt(g[0, 0]):
            bad.append('norm')
        Z = teneva.add(Y, teneva.mul(Y, -0.5))
        if not np.abs(np.asarray(teneva.get_many(Z, I)) - 0.5 * ref).max() <= 1e-10 * sc:
            bad.append('add/mul')
        if [int(x) for x in teneva.ranks(Y)] != r or [int(x) for x in teneva.shape(Y)] != n or int(teneva.size(Y)) != sum(G.size for G in Y):
            bad.append('shape/ranks/size')
        for b_ in bad:
            ctx.violation('algebra:' + b_.split('/')[0], 'large tensor (d=%d, modes up to %d, ranks up to %d): %s differs from the core-by-core contraction' % (d, max(n), max(r), b_))


def check_data_accuracy(ctx, quick):
    """Relative accuracy on a data set, also with the optional rounding accuracy e_trunc: the error of truncate(Y, e_trunc)
    on the data (mode-wise orthogonal rank-one terms, so the rounded tensor is known exactly)."""
    rng = np.random.default_rng(ctx.seed + 31)
    for t in range(20 if quick else 200):
        d = int(rng.integers(2, 5))
        n = [int(x) for x in rng.integers(2, 5, size=d)]
        # A and B: rank-one tensors built from orthogonal vectors in every mode
        Qs = [np.linalg.qr(rng.normal(size=(k, k)))[0] for k in n]
        A = [Qs[k][:, 0].reshape(1, n[k], 1) * (3. if k == 0 else 1.) for k in range(d)]
        B = [Qs[k][:, 1].reshape(1, n[k], 1) * (2.0 ** -10 if k == 0 else 1.) for k in range(d)]
        Y = F.tt_add(A, B)
        I = teneva.grid_flat(n)
        I = np.vstack([I, I[:3]])
        dA, dB = F.dense(A), F.dense(B)
        yA = dA[tuple(I.T)]
        yY = (dA + dB)[tuple(I.T)]
        ctx.case(key=('data-accuracy', n, t), nontrivial=True)
        e0 = teneva.accuracy_on_data(Y, I, yA)
        ref0 = np.linalg.norm(yY - yA) / np.linalg.norm(yA)
        e1 = teneva.accuracy_on_data(Y, I, yA, e_trunc=0.05)          # drops the 2^-10 component: the data are then reproduced
        e2 = teneva.accuracy_on_data(Y, I, yY, e_trunc=1e-12)        # keeps everything
        ok = abs(e0 - ref0) <= 1e-9 * ref0 and e1 <= 1e-9 and e2 <= 1e-9
        ctx.check(ok, 'algebra:accuracy_on_data', 'accuracy_on_data: without rounding %r (dense %r), with e_trunc=0.05 %r (expected 0), with e_trunc=1e-12 against the full data %r (expected 0)' % (e0, ref0, e1, e2))


def check_huge(ctx, quick):
    """sum / mean / get on rank-1 chains with up to 2^6000 elements (exact values from Stab.tla)"""
    from fractions import Fraction
    from . import c16
    res = tlc.run('Stab', cfg='Stab.cfg', workers=16, timeout=1800)
    ctx.add_tlc(res, 'Stab: exact sum / mean of rank-1 chains with up to 2^6000 elements')
    rng = np.random.default_rng(ctx.seed + 9)
    rows = [r_ for r_ in res.json if r_['d'] >= 2 and r_['sodd'] != 40000 and abs(r_['sodd']) < 30000]
    rows = [rows[j] for j in rng.permutation(len(rows))[:(150 if quick else 1500)]]
    for row in rows:
        Y = c16.build(row['blocks'], 'a')
        d = row['d']
        case = {'blocks': row['blocks']}
        ctx.case(key=('huge', row['blocks']), nontrivial=d >= 64)
        s_ = teneva.sum(Y)
        exact = Fraction(row['sodd']) * Fraction(2) ** row['sexp'] if not row['szero'] else Fraction(0)
        def close(v, ex):
            if ex == 0:
                return v == 0
            if not np.isfinite(v):
                return False
            return abs(Fraction(float(v)) - ex) <= Fraction(1, 10**11) * abs(ex)
        # plain (unstabilised) arithmetic: every partial product along the chain must be representable
        run_, worst = 0., 0.
        for bl in row['blocks']:
            t = abs(sum(bl['a']))
            step = (np.log2(t) if t > 0 else 0.) + bl['sa']
            worst = max(worst, abs(run_ + step * bl['cnt']), abs(run_ + step))
            run_ += step * bl['cnt']
            if t == 0:
                break
        lens = sum(bl['cnt'] * (np.log2(len(bl['a']))) for bl in row['blocks'])
        if worst >= 1000:
            continue
        rep = True
        if rep:
            ctx.check(close(s_, exact), 'algebra:sum', 'sum of a rank-1 chain (d = %d) = %r, exact %s * 2^%d' % (d, s_, row['sodd'], row['sexp']), case=case)
        if row['npow2'] >= 0:
            em = exact / Fraction(2) ** row['npow2']
            if True:
                m_ = teneva.mean(Y)
                ctx.check(close(m_, em), 'algebra:mean', 'mean of a rank-1 chain with 2^%d elements = %r, exact %s * 2^%d' % (row['npow2'], m_, row['sodd'], row['sexp'] - row['npow2']), case=case)
        # one entry, exact
        idx = [int(rng.integers(G.shape[1])) for G in Y]
        m1, e1 = c16.normal_form(*c16.entry_exp(Y, idx))
        if m1 == 0 or abs(e1) < 1000:
            v = teneva.get(Y, idx)
            ex = m1 * Fraction(2) ** e1
            ctx.check(close(v, ex), 'algebra:get', 'get on a rank-1 chain (d = %d) = %r, exact %s' % (d, v, float(ex)), case=case)
        if d <= 3002:
            sh = teneva.shape(Y)
            ctx.check(len(sh) == d and int(teneva.size(Y)) == sum(G.size for G in Y), 'algebra:shape', 'shape / size wrong for d = %d' % d, case=case)
