"""Batched trace validation: many recorded traces, one TLC start."""
import json
import os
import re
import tempfile

from . import tlc


def validate(module, traces, cfg=None, diag_cfg=None, timeout=1800, dfs=False):
    """Validate traces (list of JSON-able dicts) against spec/<module>.tla.

    Returns list of verdicts, one per trace: dict(ok=bool, why=str).  A trace
    is accepted iff TLC printed <<"ACCEPTED", tid>> for it.  If an invariant
    of the specification is violated on a trace, that trace is charged with
    the violated invariant and validation continues with the others.
    """
    n = len(traces)
    verdict = [None] * n
    live = list(range(n))
    total_states = 0
    total_gen = 0
    runs = []
    while live:
        fd, path = tempfile.mkstemp(prefix='traces_', suffix='.json')
        with os.fdopen(fd, 'w') as f:
            json.dump([traces[k] for k in live], f)
        try:
            res = tlc.run(module, cfg=cfg, workers=1, env={'TRACE_FILE': path}, timeout=timeout,
                          allow_violation=True, dfs=dfs)
        finally:
            os.unlink(path)
        total_states += res.distinct
        total_gen += res.generated
        runs.append(res)
        acc = set(t[0] for t in res.tagged('ACCEPTED'))
        if res.violated is not None:
            m = re.findall(r'/\\ tid = (\d+)', res.raw_tail)
            if not m:
                raise tlc.TlcError('violation without tid in trace run:\n' + res.raw_tail)
            bad = int(m[-1])
            verdict[live[bad - 1]] = dict(ok=False, why='invariant %s violated' % res.violated)
            for t in acc:
                if verdict[live[t - 1]] is None:
                    verdict[live[t - 1]] = dict(ok=True, why='')
            live = [k for j, k in enumerate(live, start=1) if verdict[k] is None]
            continue
        for j, k in enumerate(live, start=1):
            verdict[k] = dict(ok=True, why='') if j in acc else dict(ok=False, why='not a behaviour of the specification')
        live = []
    # diagnosis of rejected traces: longest matched prefix
    rej = [k for k in range(n) if not verdict[k]['ok'] and verdict[k]['why'].startswith('not a behaviour')]
    if rej and diag_cfg:
        fd, path = tempfile.mkstemp(prefix='traces_', suffix='.json')
        with os.fdopen(fd, 'w') as f:
            json.dump([traces[k] for k in rej[:5]], f)
        try:
            res = tlc.run(module, cfg=diag_cfg, workers=1, env={'TRACE_FILE': path}, timeout=timeout,
                          allow_violation=True)
            best = {}
            for t in res.tagged('AT'):
                if t[1] > best.get(t[0], (0, ''))[0]:
                    best[t[0]] = (t[1], t[2])
            for j, k in enumerate(rej[:5], start=1):
                if j in best:
                    l, pc = best[j]
                    ev = traces[k]['ev']
                    nxt = ev[l - 1] if l - 1 < len(ev) else None
                    verdict[k]['why'] += ': matched %d of %d events, stuck at pc=%s before event %s' % (
                        l - 1, len(ev), pc, json.dumps(nxt)[:300])
        except tlc.TlcError as ex:
            verdict[rej[0]]['why'] += ' (diagnosis run failed: %s)' % str(ex)[:200]
        finally:
            os.unlink(path)
    return verdict, total_states, total_gen, runs
