"""pytest plugin: record every teneva.cross / teneva.als call made by the repository's own tests
(sizes only for cross) and dump the traces to $VERIF_TRACE_OUT at the end of the session.
Usage: pytest -p harness.pytest_plugin test/test_cross.py test/test_als.py"""
import importlib
import json
import os

import numpy as np

TRACES = {'cross': [], 'als': [], 'maxvol': 0}


def _install():
    import teneva
    C = importlib.import_module('teneva.cross')
    orig_cross = teneva.cross

    def cross(f, Y0, m=None, e=None, nswp=None, tau=1.1, dr_min=1, dr_max=1, tau0=1.05, k0=100, info=None, cache=None,
              I_vld=None, y_vld=None, e_vld=None, cb=None, func=None, m_cache_scale=5, log=False):
        info = {} if info is None else info
        ev = []
        d = len(Y0)

        def f2(I):
            I = np.asarray(I)
            y = f(I)
            n_shape = [G.shape[1] for G in Y0]
            wf = bool(I.ndim == 2 and I.shape[1] == d and I.dtype.kind in 'iu' and (I >= 0).all() and (I < np.array(n_shape)).all())
            ev.append(dict(ev='fcall', new=int(len(I)), none=y is None, wf=wf))
            return y

        def func2(f_, Ig, Ir, Ic, info_, cache_):
            ev.append(dict(ev='req', n=int(Ig.shape[0]), r1=1 if Ir is None else int(Ir.shape[0]), r2=1 if Ic is None else int(Ic.shape[0]),
                           m=int(info_['m']), mc=int(info_['m_cache']), stop=info_['stop'] or 'none'))
            Z = (func or orig_func)(f_, Ig, Ir, Ic, info_, cache_)
            ev.append(dict(ev='reqdone', ok=Z is not None, m=int(info_['m']), mc=int(info_['m_cache']), stop=info_['stop'] or 'none'))
            return Z
        orig_iter = getattr(C, '_iter', None)
        orig_func = getattr(C, '_func', None)
        if orig_func is None and func is None:      # no seam left to record through: run unrecorded
            return orig_cross(f, Y0, m, e, nswp, tau, dr_min, dr_max, tau0, k0, info, cache, I_vld, y_vld, e_vld, cb, func, m_cache_scale, log)

        def it(Z, Ig, I, *a, **k):
            G, R, Inew = orig_iter(Z, Ig, I, *a, **k)
            ltr = k['ltr'] if 'ltr' in k else (a[5] if len(a) > 5 else True)
            ev.append(dict(ev='iter', ltr=bool(ltr), q=int(np.asarray(Inew).shape[0])))
            return G, R, Inew

        def hit(val, thr):
            return bool(thr is not None and val >= 0 and val <= thr and not np.isinf(val))

        def cb2(Y, info_, opts):
            ret = cb(Y, info_, opts) is True if cb else False
            ev.append(dict(ev='cb', nswp=int(info_['nswp']), m=int(info_['m']), mc=int(info_['m_cache']),
                           ranks=[int(x) for x in teneva.ranks(Y)], ret=bool(ret), ehit=hit(info_['e'], e), vhit=hit(info_['e_vld'], e_vld)))
            return True if ret else None
        if orig_iter is not None:
            C._iter = it
        try:
            Y = orig_cross(f2, Y0, m, e, nswp, tau, dr_min, dr_max, tau0, k0, info, cache, I_vld, y_vld, e_vld, cb2, func2, m_cache_scale, log)
        finally:
            if orig_iter is not None:
                C._iter = orig_iter
        stop = info['stop']
        ev.append(dict(ev='ret', stop=stop or 'none', m=int(info['m']), mc=int(info['m_cache']), nswp=int(info['nswp']),
                       ranks=[1] + [int(G.shape[2]) for G in Y], shape=[int(G.shape[1]) for G in Y],
                       finite=bool(all(np.isfinite(G).all() for G in Y)), e_ok=(stop != 'e') or hit(info['e'], e),
                       evld_ok=(stop != 'e_vld') or hit(info['e_vld'], e_vld)))
        TRACES['cross'].append(dict(cfg=dict(n=[int(G.shape[1]) for G in Y0], r0=[1] + [int(G.shape[2]) for G in Y0], drmin=int(dr_min), drmax=int(dr_max),
                                             nswp=-1 if nswp is None else int(nswp), mmax=-1 if not m else int(m), cache=cache is not None,
                                             mcs=int(m_cache_scale), hasE=e is not None, hasV=e_vld is not None), ev=ev, noiter=orig_iter is None))
        return Y
    teneva.cross = cross
    orig_als = teneva.als

    def als(I_trn, y_trn, Y0, nswp=50, e=1.E-16, info=None, *, I_vld=None, y_vld=None, e_vld=None, r=None, lamb=0.001, w=None, cb=None, **kw):
        if r is not None or kw or lamb is None or not hasattr(importlib.import_module('teneva.als'), '_optimize_core'):
            return orig_als(I_trn, y_trn, Y0, nswp, e, {} if info is None else info, I_vld=I_vld, y_vld=y_vld, e_vld=e_vld, r=r, lamb=lamb, w=w, cb=cb, **kw)
        from harness import c07
        vld = (np.asarray(I_vld), np.asarray(y_vld, dtype=float)) if I_vld is not None and y_vld is not None else None
        tr, info_, Y = c07.record_als(np.asarray(I_trn), np.asarray(y_trn, dtype=float), Y0, nswp=nswp, lamb=lamb, w=None if w is None else np.asarray(w, dtype=float),
                                      e=e, e_vld=e_vld, vld=vld, return_Y=True, user_cb=cb, info=info, als_fn=orig_als)
        TRACES['als'].append(tr)
        return Y
    teneva.als = als


def pytest_configure(config):
    _install()


def pytest_sessionfinish(session, exitstatus):
    out = os.environ.get('VERIF_TRACE_OUT')
    if out:
        with open(out, 'w') as f:
            json.dump(TRACES, f)
