#!/bin/sh
# tools/confirm_seed.sh <scratch worktree> <dir with patch.diff demo.py meta.json> <seed name>
# Confirms a seeded change independently (tests pass, demo fails with it, passes without) and stores it
# under /verif/seeded/<name>/ with what was run.
wt="$1"; src="$2"; name="$3"
cd "$wt" || exit 3
git checkout -q -- . ; git status --short | grep -q . && { echo "worktree dirty"; exit 3; }
PYTHONPATH="$wt" /venv/bin/python "$src/demo.py" > /tmp/cs_clean_$name.log 2>&1; rc_clean=$?
git apply "$src/patch.diff" || { echo "$name: patch does not apply"; exit 3; }
PYTHONPATH="$wt" /venv/bin/python "$src/demo.py" > /tmp/cs_mut_$name.log 2>&1; rc_mut=$?
PYTHONPATH="$wt" timeout 900 /venv/bin/python -m pytest -q -p no:cacheprovider --timeout=900 test > /tmp/cs_test_$name.log 2>&1
summary=$(tail -1 /tmp/cs_test_$name.log)
git checkout -q -- .
echo "$name: demo clean rc=$rc_clean, demo mutated rc=$rc_mut, tests: $summary"
case "$summary" in *"2 failed, 57 passed"*) ok=1;; *) ok=0;; esac
if [ $rc_clean -eq 0 ] && [ $rc_mut -ne 0 ] && [ $ok -eq 1 ]; then
  mkdir -p /verif/seeded/$name
  cp "$src/patch.diff" "$src/demo.py" /verif/seeded/$name/
  /venv/bin/python - "$src/meta.json" "/verif/seeded/$name/meta.json" "$rc_clean" "$rc_mut" "$summary" <<'PY'
import json,sys
m=json.load(open(sys.argv[1]))
m['confirmed']={'demo_on_clean_tree_rc':int(sys.argv[3]),'demo_with_patch_rc':int(sys.argv[4]),'test_suite_with_patch':sys.argv[5],
 'how':'tools/confirm_seed.sh: scratch worktree, git apply, PYTHONPATH=<worktree> demo.py and the pinned pytest command, then git checkout'}
json.dump(m,open(sys.argv[2],'w'),indent=1)
PY
  echo "  stored in /verif/seeded/$name"
else
  echo "  NOT confirmed"
fi
