#!/bin/sh
# tools/seed_matrix.sh [tier] : run every seeded change against the check of its own property in a scratch
# worktree of /repo (never touches /repo itself); writes /verif/seeded/RESULTS.txt
tier="${1:-quick}"
wt=$(mktemp -d /tmp/seedwt.XXXXXX)
git -C /repo worktree add -q --detach "$wt/repo" HEAD || exit 3
out=/verif/seeded/RESULTS_$tier.txt
: > "$out"
for dir in /verif/seeded/C*_*; do
  name=$(basename "$dir"); pid=${name%_*}
  git -C "$wt/repo" checkout -q -- . ; git -C "$wt/repo" apply "$dir/patch.diff" || { echo "$name patch-does-not-apply" >> "$out"; continue; }
  extra=""
  [ -f "$dir/also_checked_by" ] && extra=$(cat "$dir/also_checked_by")
  for chk in $pid $extra; do
    VERIF_REPO="$wt/repo" VERIF_OUT="$wt/out" VERIF_EVID="$wt/evid" /verif/check "$chk" --tier "$tier" > "$wt/log" 2>&1
    rc=$?
    echo "$name check=$chk rc=$rc violations=$(grep -c '^VIOLATION' $wt/log) $(grep -m1 'sig=' $wt/log | cut -c1-160)" >> "$out"
  done
done
git -C /repo worktree remove --force "$wt/repo"; rm -rf "$wt"
cat "$out"
