#!/bin/sh
# tools/seed_matrix.sh [tier] [parallel] [property ids...] : run every seeded change (or only those of the given
# properties) against the check of its own property, each in its own scratch worktree of /repo (never touches /repo
# itself); writes /verif/seeded/RESULTS_<tier>.txt (with a property filter: merges into the existing file).
# Do not run it next to thorough tiers or vp check on the same machine: an 8-wide matrix needs the 16 cores.
tier="${1:-quick}"; par="${2:-4}"; [ $# -ge 2 ] && shift 2 || shift $#
out=/verif/seeded/RESULTS_$tier.txt
if [ $# -gt 0 ]; then sel=$(for p in "$@"; do ls -d /verif/seeded/${p}_*; done); else sel=$(ls -d /verif/seeded/C*_*); fi
echo "$sel" | xargs -n1 basename | xargs -P "$par" -I{} sh -c 'n={}; /verif/tools/seed_one.sh "$n" '"$tier"' "${n%_*}"' > "$out.tmp" 2>&1
if [ $# -gt 0 ] && [ -f "$out" ]; then
  pat=$(echo "$@" | sed 's/ /|/g')
  grep -Ev "^($pat)_" "$out" >> "$out.tmp"
fi
sort "$out.tmp" | grep -v "^WARNING" > "$out"; rm -f "$out.tmp"
echo "caught: $(grep -c 'rc=1' $out) of $(ls -d /verif/seeded/C*_* | wc -l)"; grep -v "rc=1" "$out"
