#!/bin/sh
# tools/seed_matrix.sh [tier] [parallel] : run every seeded change against the check of its own property, each in its
# own scratch worktree of /repo (never touches /repo itself); writes /verif/seeded/RESULTS_<tier>.txt
tier="${1:-quick}"; par="${2:-4}"
out=/verif/seeded/RESULTS_$tier.txt
ls -d /verif/seeded/C*_* | xargs -n1 basename | xargs -P "$par" -I{} sh -c 'n={}; /verif/tools/seed_one.sh "$n" '"$tier"' "${n%_*}"' > "$out.tmp" 2>&1
sort "$out.tmp" | grep -v "^WARNING" > "$out"; rm -f "$out.tmp"
echo "caught: $(grep -c 'rc=1' $out) of $(ls -d /verif/seeded/C*_* | wc -l)"; grep -v "rc=1" "$out"
