#!/bin/sh
# tools/try_patch.sh <patch.diff> <tier> <id> [<id> ...] : apply a seeded change to /repo, run checks, undo it.
p="$1"; tier="$2"; shift 2
git -C /repo apply "$p" || { echo "patch does not apply"; exit 3; }
for id in "$@"; do
  /verif/check "$id" --tier "$tier" > /tmp/try_$id.log 2>&1
  rc=$?
  echo "$id rc=$rc $(grep -c '^VIOLATION' /tmp/try_$id.log) violations; $(grep -m1 'sig=' /tmp/try_$id.log | cut -c1-300)"
  [ $rc -eq 2 ] && tail -5 /tmp/try_$id.log
done
git -C /repo checkout -- .
git -C /repo status --short | head -3
