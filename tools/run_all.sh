#!/bin/sh
# tools/run_all.sh <tier> : run every check once (evidence / replay files go to a scratch directory), print a summary
tier="${1:-quick}"
tmp=$(mktemp -d /tmp/runall.XXXXXX)
for i in ${CHECKS:-01 02 03 04 05 06 07 08 09 10 11 12 13 14 15 16 17 18 19 20}; do
  s=$(date +%s)
  VERIF_OUT="$tmp/out" VERIF_EVID="$tmp/evid" /verif/check C$i --tier "$tier" > "$tmp/C$i.log" 2>&1
  rc=$?
  e=$(date +%s)
  echo "C$i rc=$rc $((e-s))s $(tail -1 $tmp/C$i.log | cut -c1-200)"
  [ $rc -ne 0 ] && grep -m3 "sig=\|MACHINERY\|Error" "$tmp/C$i.log" | cut -c1-300
done
rm -rf "$tmp"
