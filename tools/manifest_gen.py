#!/usr/bin/env python3
"""Regenerate MANIFEST.json from tools/checks.json (one entry per claimed property) so that the
manifest stays valid and not_applicable stays current."""
import json, os
root = os.path.dirname(os.path.dirname(os.path.abspath(__file__)))
props = [json.loads(l) for l in open(os.path.join(root, 'properties.jsonl'))]
checks = json.load(open(os.path.join(root, 'tools', 'checks.json')))
na = json.load(open(os.path.join(root, 'tools', 'not_applicable.json')))
m = {
 "version": 1,
 "setup_cmd": "cd /verif && ./setup.sh",
 "hooks": {"guard": "TENEVA_VERIF",
           "enable": "TENEVA_VERIF=1 in the environment before teneva is imported (./check sets it); checks import /repo's working tree directly, nothing is built",
           "baseline_off_cmd": "cd /repo && env -u TENEVA_VERIF /venv/bin/python -m pytest -ra -q -p no:cacheprovider --timeout=900 --continue-on-collection-errors",
           "source_commits": ["69efc9c"], "add_only": True},
 "engines": [{"name": "tlc", "path": "/verif/harness/tlc.py", "serves_properties": sorted(checks),
              "kind_free_text": "TLC 1.8 on the TLA+ modules in /verif/spec (exhaustive configs, emission of cases, batched trace validation)"},
             {"name": "replay+recorders", "path": "/verif/harness", "serves_properties": sorted(checks),
              "kind_free_text": "Python conformance harness: replays TLC-emitted cases/behaviours through teneva and records executions for trace validation"}],
 "checks": [], "notes": "see DESIGN.md; ./check <id> --tier quick|thorough [--replay file]",
 "not_applicable": []}
for p in props:
    pid = p['id']
    if pid in checks:
        c = checks[pid]
        m['checks'].append({
            "property_id": pid,
            "quick_cmd": "cd /verif && ./check %s --tier quick" % pid,
            "thorough_cmd": "cd /verif && ./check %s --tier thorough" % pid,
            "evidence_file": "/verif/evidence/%s.json" % pid,
            "replay_cmd_template": "cd /verif && ./check %s --replay {path}" % pid,
            "engine": "tlc",
            "level_claimed": {"category": "model_checking", "text": c['text'], "design_ref": c.get('design_ref', 'DESIGN.md section 4, ' + pid)},
            "level_note": c['note'],
            "technique": c['technique']})
    else:
        m['not_applicable'].append({"property_id": pid, "reason": na.get(pid, "check not built yet (work in progress, see DESIGN.md section 10)")})
json.dump(m, open(os.path.join(root, 'MANIFEST.json'), 'w'), indent=1)
print('claimed:', sorted(checks), 'not claimed:', [x['property_id'] for x in m['not_applicable']])
