#!/bin/sh
# tools/seed_one.sh <seed name> <tier> <check id>... : run checks against one seeded change in a scratch worktree
name="$1"; tier="$2"; shift 2
wt=$(mktemp -d /tmp/seedwt.XXXXXX)
git -C /repo worktree add -q --detach "$wt/repo" HEAD || exit 3
git -C "$wt/repo" apply "/verif/seeded/$name/patch.diff" || { echo "$name patch-does-not-apply"; git -C /repo worktree remove --force "$wt/repo"; rm -rf "$wt"; exit 3; }
for chk in "$@"; do
  VERIF_REPO="$wt/repo" VERIF_OUT="$wt/out" VERIF_EVID="$wt/evid" /verif/check "$chk" --tier "$tier" > "$wt/log" 2>&1
  rc=$?
  echo "$name check=$chk rc=$rc violations=$(grep -c '^VIOLATION' $wt/log) $(grep -m1 'sig=' $wt/log | cut -c1-220)"
  [ $rc -eq 2 ] && tail -3 "$wt/log"
done
git -C /repo worktree remove --force "$wt/repo"; rm -rf "$wt"
