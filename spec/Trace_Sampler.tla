---------------------------- MODULE Trace_Sampler ----------------------------
(* Validation of recorded sampler executions.  A trace is                       *)
(*   [kind, cores, n, ev] with events                                           *)
(*   cond{pre, num, den}   one probability vector handed to the generator's      *)
(*                         choice(), as exact fractions, with the (1-based)      *)
(*                         prefix that had been drawn when it was used            *)
(*   ret{rows, m, unique}  the returned multi-indices (0-based)                  *)
(*   lhs{cols}             Latin hypercube sample, one column per mode            *)
(*   block{k, rows, l1, l2}  one block of the structured sample set (sample_tt)   *)
EXTENDS Sampler, TLCExt, Json, IOUtils
Traces == JsonDeserialize(IOEnv.TRACE_FILE)
VARIABLES tid, l, yd, done, tab
tvars == <<tid, l, yd, done, tab>>
T == Traces[tid]
Ev == T.ev
E == Ev[l]
IsEv(name) == l <= Len(Ev) /\ E.ev = name
Sq == T.kind = "sq"

TInit == /\ tid \in 1..Len(Traces) /\ l = 1 /\ done = FALSE
         /\ yd = IF Traces[tid].kind \in {"lin", "sq"} THEN Denote(Traces[tid].cores) ELSE <<>>
         /\ tab = IF Traces[tid].kind \in {"lin", "sq"}
                    THEN STable(Denote(Traces[tid].cores), Traces[tid].n, Traces[tid].kind = "sq") ELSE <<>>
Step(cond) == cond /\ l' = l + 1 /\ UNCHANGED <<tid, yd, done, tab>>
TCond == Step(IsEv("cond") /\ E.near /\ CondMatchesT(tab, T.n, E.pre, E.num, E.den))
TRet == Step(/\ IsEv("ret")
             /\ E.wf /\ Len(E.rows) = E.m
             /\ \A s \in 1..Len(E.rows) : InBounds0(E.rows[s], T.n)
             /\ (E.unique => Distinct(E.rows))
             \* a drawn multi-index has positive weight
             /\ (T.kind \in {"lin", "sq"} =>
                   \A s \in 1..Len(E.rows) : tab[[k \in 1..Len(T.n) |-> E.rows[s][k] + 1]] > 0))
TLhs == Step(/\ IsEv("lhs")
             /\ \A k \in 1..Len(T.n) : LhsOK(E.cols[k], T.n[k]) /\ \A s \in 1..Len(E.cols[k]) : E.cols[k][s] \in 0..(T.n[k]-1))
TBlock == Step(IsEv("block") /\ BlockOK(E.rows, T.n, E.k, E.l1, E.l2))
TEnd == l = Len(Ev) + 1 /\ ~done /\ done' = TRUE /\ UNCHANGED <<tid, l, yd, tab>>
TNext == TCond \/ TRet \/ TLhs \/ TBlock \/ TEnd
TSpec == TInit /\ [][TNext]_tvars
Accepted == done => PrintT(<<"ACCEPTED", tid>>)
Progress == PrintT(<<"AT", tid, l, "x">>)
=============================================================================
