---------------------------- MODULE Trace_Orth ----------------------------
(* Validation of recorded orthogonalize(Y, k, use_stab) executions: the sweep must be   *)
(* the composition Left(0) .. Left(k-1), Right(d-1) .. Right(k+1) of the single steps   *)
(* (seams: the module-level single-step functions and core_stab), with a stabilisation  *)
(* of the weight-receiving core after every step when requested.                        *)
(* Events: left{i}, right{i}, stab{i}, end{r, L_ok, R_ok, dense_ok, norm_ok, p_ok}       *)
EXTENDS Orth, TLCExt, IOUtils
Traces == JsonDeserialize(IOEnv.TRACE_FILE)
VARIABLES tid, l, pend     \* pend: core that must be stabilised next (-1 none)
tvars == <<vars, tid, l, pend>>
T == Traces[tid]
Ev == T.ev
E == Ev[l]
IsEv(name) == l <= Len(Ev) /\ E.ev = name
Adv == l' = l + 1 /\ tid' = tid
\* position in the sweep is determined by the statuses: next left step is the first non-L core below k
NextLeft == IF \E i \in 0..(T.k - 1) : st[i] # "L" THEN CHOOSE i \in 0..(T.k - 1) : st[i] # "L" /\ \A j \in 0..(i - 1) : st[j] = "L" ELSE -1
NextRight == IF \E i \in (T.k + 1)..(D - 1) : st[i] # "R" THEN CHOOSE i \in (T.k + 1)..(D - 1) : st[i] # "R" /\ \A j \in (i + 1)..(D - 1) : st[j] = "R" ELSE -1
TInit == /\ tid \in 1..Len(Traces) /\ l = 1 /\ pend = -1
         /\ n = Traces[tid].n /\ r = Traces[tid].r
         /\ st = [i \in 0..(Len(Traces[tid].n) - 1) |-> "W"] /\ ver = [i \in 0..(Len(Traces[tid].n) - 1) |-> 0] /\ hist = <<>>
TLeft == /\ IsEv("left") /\ pend = -1 /\ NextLeft # -1 /\ E.i = NextLeft /\ Left(E.i) /\ Adv
         /\ pend' = (IF T.stab THEN E.i + 1 ELSE -1) /\ UNCHANGED <<n, hist>>
TRight == /\ IsEv("right") /\ pend = -1 /\ NextLeft = -1 /\ NextRight # -1 /\ E.i = NextRight /\ Right(E.i) /\ Adv
          /\ pend' = (IF T.stab THEN E.i - 1 ELSE -1) /\ UNCHANGED <<n, hist>>
TStab == /\ IsEv("stab") /\ pend # -1 /\ E.i = pend /\ pend' = -1 /\ Adv /\ UNCHANGED vars
TEnd == /\ IsEv("end") /\ pend = -1 /\ NextLeft = -1 /\ NextRight = -1 /\ Adv
        /\ \A b \in 1..(D + 1) : E.r[b] <= r[b]           \* ranks within the rule's bounds
        /\ E.L_ok /\ E.R_ok /\ E.dense_ok /\ E.norm_ok /\ E.p_ok /\ E.fresh_ok
        /\ hist' = <<"done">> /\ UNCHANGED <<n, r, st, ver, pend>>
TNext == TLeft \/ TRight \/ TStab \/ TEnd
TSpec == TInit /\ [][TNext]_tvars
Accepted == (hist = <<"done">> /\ l = Len(Ev) + 1) => PrintT(<<"ACCEPTED", tid>>)
Progress == PrintT(<<"AT", tid, l, "x">>)
=============================================================================
