---------------------------- MODULE CrossCounts ----------------------------
(***************************************************************************)
(* Abstraction of Cross in which every index set is replaced by its size.   *)
(* It keeps the control flow, the rank rule, the shapes / pending factor,    *)
(* the counters and the stop contract, and forgets which indices are in the  *)
(* sets and in the cache (the number of uncached indices of a batch becomes  *)
(* an action parameter).  MC_Cross checks that Cross implements this module  *)
(* under the refinement mapping  rl[k] = Card(Ir[k]), rc[k] = Card(Ic[k])    *)
(* (PROPERTY Abs!ASpec), so traces of executions that are too large for the  *)
(* full specification - the repository's own tests - can be validated        *)
(* against it.                                                              *)
(***************************************************************************)
EXTENDS Integers, Sequences, FiniteSets, TLC, CrossContract

VARIABLES cfg, pc, i, rl, rc, sh, pend, m, mc, nsw, stop, bsz, ncall
avars == <<cfg, pc, i, rl, rc, sh, pend, m, mc, nsw, stop, bsz, ncall>>
D == Len(cfg.n)
Nk(k) == cfg.n[k+1]
Min2(a, b) == IF a < b THEN a ELSE b
RankRule(rows, cols, dmin, dmax) ==
  LET k == Min2(rows, cols) IN
  IF rows <= k THEN {rows}
  ELSE LET dM == Min2(dmax, rows - k)
           dm == Min2(dmin, dM)
       IN IF dM = 0 THEN {k} ELSE (k + dm)..(k + dM)
Ranks == <<1>> \o [k \in 1..D |-> sh[k-1][3]]

AInitWith(c) ==
  /\ cfg = c /\ pc = "preL" /\ i = 0
  /\ rl = [k \in 0..Len(c.n) |-> 1] /\ rc = [k \in 0..Len(c.n) |-> 1]
  /\ sh = [k \in 0..(Len(c.n)-1) |-> <<c.r0[k+1], c.n[k+1], c.r0[k+2]>>]
  /\ pend = <<1, 1>> /\ m = 0 /\ mc = 0 /\ nsw = 0 /\ stop = "none" /\ bsz = 0 /\ ncall = 0

IterL(k, q, dmin, dmax, leftRank, colsOld) ==
  /\ q \in RankRule(leftRank * Nk(k), colsOld, dmin, dmax)
  /\ rl' = [rl EXCEPT ![k+1] = q]
  /\ sh' = [sh EXCEPT ![k] = <<leftRank, Nk(k), q>>]
  /\ pend' = <<q, colsOld>>
IterR(k, q, dmin, dmax, rightRank, rowsOld) ==
  /\ q \in RankRule(rightRank * Nk(k), rowsOld, dmin, dmax)
  /\ rc' = [rc EXCEPT ![k] = q]
  /\ sh' = [sh EXCEPT ![k] = <<q, Nk(k), rightRank>>]
  /\ pend' = <<rowsOld, q>>
FoldLastL  == [sh EXCEPT ![D-1] = <<sh[D-1][1], sh[D-1][2], pend[2]>>]
FoldFirstR == [sh EXCEPT ![0]   = <<pend[1], sh[0][2], sh[0][3]>>]

APreL(q) == /\ pc = "preL" /\ IterL(i, q, 0, 0, IF i = 0 THEN 1 ELSE pend[1], sh[i][3])
            /\ IF i = D-1 THEN pc' = "preLfold" /\ i' = i ELSE pc' = pc /\ i' = i+1
            /\ UNCHANGED <<cfg, rc, m, mc, nsw, stop, bsz, ncall>>
APreLFold == /\ pc = "preLfold" /\ sh' = FoldLastL /\ pend' = <<1, 1>> /\ pc' = "preR" /\ i' = D-1
             /\ UNCHANGED <<cfg, rl, rc, m, mc, nsw, stop, bsz, ncall>>
APreR(q) == /\ pc = "preR" /\ IterR(i, q, 0, 0, IF i = D-1 THEN 1 ELSE pend[2], sh[i][1])
            /\ IF i = 0 THEN pc' = "preRfold" /\ i' = i ELSE pc' = pc /\ i' = i-1
            /\ UNCHANGED <<cfg, rl, m, mc, nsw, stop, bsz, ncall>>
APreRFold(vHit) ==
  /\ pc = "preRfold" /\ sh' = FoldFirstR /\ pend' = <<1, 1>> /\ i' = 0 /\ pc' = "ltr"
  /\ (vHit => cfg.hasV)
  /\ stop' = IF vHit THEN "e_vld" ELSE IF cfg.nswp = 0 THEN "nswp" ELSE "none"
  /\ UNCHANGED <<cfg, rl, rc, m, mc, nsw, bsz, ncall>>
ARequest ==
  /\ pc \in {"ltr", "rtl"}
  /\ bsz' = (IF i = 0 THEN 1 ELSE rl[i]) * Nk(i) * (IF i = D-1 THEN 1 ELSE rc[i+1])
  /\ pc' = IF pc = "ltr" THEN "ltrQ" ELSE "rtlQ"
  /\ UNCHANGED <<cfg, i, rl, rc, sh, pend, m, mc, nsw, stop, ncall>>
\* new = number of indices of the batch that are not in the cache (= bsz without cache)
AEvalCall(new, isNone) ==
  /\ pc \in {"ltrQ", "rtlQ"}
  /\ new \in 0..bsz /\ (~cfg.cache => new = bsz) /\ (cfg.cache => new >= 1)
  /\ ~(cfg.mmax >= 0 /\ m + new > cfg.mmax)
  /\ ncall' = ncall + 1
  /\ IF isNone THEN stop' = "func" /\ UNCHANGED <<m, mc>>
               ELSE m' = m + new /\ mc' = mc + (bsz - new) /\ UNCHANGED stop
  /\ pc' = IF pc = "ltrQ" THEN "ltrD" ELSE "rtlD"
  /\ UNCHANGED <<cfg, i, rl, rc, sh, pend, nsw, bsz>>
AEvalSilent ==
  /\ pc \in {"ltrQ", "rtlQ"}
  /\ \/ /\ cfg.mmax >= 0 /\ \E new \in 1..bsz : (~cfg.cache => new = bsz) /\ m + new > cfg.mmax
        /\ stop' = "m" /\ UNCHANGED <<m, mc>>
     \/ /\ cfg.cache /\ mc' = mc + bsz /\ UNCHANGED <<m, stop>>
  /\ pc' = IF pc = "ltrQ" THEN "ltrD" ELSE "rtlD"
  /\ UNCHANGED <<cfg, i, rl, rc, sh, pend, nsw, bsz, ncall>>
ADecide ==
  /\ pc \in {"ltrD", "rtlD"}
  /\ pc' = IF stop # "none" THEN (IF pc = "ltrD" THEN "retL" ELSE "retR") ELSE (IF pc = "ltrD" THEN "ltrI" ELSE "rtlI")
  /\ UNCHANGED <<cfg, i, rl, rc, sh, pend, m, mc, nsw, stop, bsz, ncall>>
AMainIterL(q) ==
  /\ pc = "ltrI" /\ IterL(i, q, cfg.drmin, cfg.drmax, IF i = 0 THEN 1 ELSE rl[i], IF i = D-1 THEN 1 ELSE rc[i+1])
  /\ IF i = D-1 THEN pc' = "ltrFold" /\ i' = i ELSE pc' = "ltr" /\ i' = i+1
  /\ UNCHANGED <<cfg, rc, m, mc, nsw, stop, bsz, ncall>>
ALtrFold == /\ pc = "ltrFold" /\ sh' = FoldLastL /\ pend' = <<1, 1>> /\ pc' = "rtl" /\ i' = D-1
            /\ UNCHANGED <<cfg, rl, rc, m, mc, nsw, stop, bsz, ncall>>
AMainIterR(q) ==
  /\ pc = "rtlI" /\ IterR(i, q, cfg.drmin, cfg.drmax, IF i = D-1 THEN 1 ELSE rc[i+1], IF i = 0 THEN 1 ELSE rl[i])
  /\ IF i = 0 THEN pc' = "rtlFold" /\ i' = i ELSE pc' = "rtl" /\ i' = i-1
  /\ UNCHANGED <<cfg, rl, m, mc, nsw, stop, bsz, ncall>>
ARtlFold == /\ pc = "rtlFold" /\ sh' = FoldFirstR /\ pend' = <<1, 1>> /\ pc' = "sweepEnd" /\ i' = 0
            /\ nsw' = nsw + 1
            /\ stop' = IF mc > cfg.mcs * m THEN "conv" ELSE stop
            /\ UNCHANGED <<cfg, rl, rc, m, mc, bsz, ncall>>
ASweepEnd(cbRet, eHit, vHit) ==
  /\ pc = "sweepEnd"
  /\ (eHit => cfg.hasE) /\ (vHit => cfg.hasV)
  /\ LET s1 == IF cbRet /\ stop = "none" THEN "cb" ELSE stop
         s2 == IF s1 = "none" /\ vHit THEN "e_vld" ELSE s1
         s3 == IF s2 = "none" /\ eHit THEN "e" ELSE s2
         s4 == IF s3 = "none" /\ cfg.nswp >= 0 /\ nsw >= cfg.nswp THEN "nswp" ELSE s3
     IN stop' = s4 /\ pc' = IF s4 = "none" THEN "ltr" ELSE "ret"
  /\ UNCHANGED <<cfg, i, rl, rc, sh, pend, m, mc, nsw, bsz, ncall>>
ARetFoldL == /\ pc = "retL" /\ pc' = "ret" /\ sh' = [sh EXCEPT ![i] = <<pend[1], sh[i][2], sh[i][3]>>]
             /\ UNCHANGED <<cfg, i, rl, rc, pend, m, mc, nsw, stop, bsz, ncall>>
ARetFoldR == /\ pc = "retR" /\ pc' = "ret" /\ sh' = [sh EXCEPT ![i] = <<sh[i][1], sh[i][2], pend[2]>>]
             /\ UNCHANGED <<cfg, i, rl, rc, pend, m, mc, nsw, stop, bsz, ncall>>
AReturn == pc = "ret" /\ pc' = "done" /\ UNCHANGED <<cfg, i, rl, rc, sh, pend, m, mc, nsw, stop, bsz, ncall>>

\* witnesses are read off the primed variables, so that TLC can check [ANext]_avars of a refinement without enumerating them
ANext == \/ (pc = "preL" /\ APreL(rl'[i+1])) \/ (pc = "preR" /\ APreR(rc'[i]))
         \/ (pc = "ltrI" /\ AMainIterL(rl'[i+1])) \/ (pc = "rtlI" /\ AMainIterR(rc'[i]))
         \/ APreLFold \/ APreRFold(stop' = "e_vld")
         \/ ARequest \/ AEvalCall(IF stop' = "func" /\ stop # "func" THEN (IF cfg.cache THEN 1 ELSE bsz) ELSE m' - m, stop' = "func" /\ pc \in {"ltrQ", "rtlQ"})
         \/ AEvalSilent \/ ADecide \/ ALtrFold \/ ARtlFold
         \/ (\E a, b, c \in BOOLEAN : ASweepEnd(a, b, c))
         \/ ARetFoldL \/ ARetFoldR \/ AReturn
ASpec == (\E c \in {cfg} : AInitWith(c)) /\ [][ANext]_avars

ChainOK == /\ sh[0][1] = 1 /\ sh[D-1][3] = 1
           /\ (\A k \in 0..(D-2) : sh[k][3] = sh[k+1][1])
           /\ (\A j \in 0..(D-1) : sh[j][2] = Nk(j))
ABudgetInv == cfg.mmax >= 0 => m <= cfg.mmax
AReturnWF == pc \in {"ret", "done"} => ChainOK
AStopInv == pc \in {"ret", "done"} =>
               /\ stop \in {"m", "func", "nswp", "cb", "conv", "e", "e_vld"}
               /\ (stop = "nswp" => nsw = cfg.nswp) /\ (stop = "m" => cfg.mmax >= 0)
               /\ (stop = "e" => cfg.hasE) /\ (stop = "e_vld" => cfg.hasV) /\ (stop = "conv" => mc > cfg.mcs * m)
ANoCacheInv == ~cfg.cache => mc = 0
=============================================================================
