---------------------------- MODULE Incomplete ----------------------------
(***************************************************************************)
(* C20: incomplete TT-SVD from the structured sample set.                   *)
(* (i) Layout agreement.  The generator (sample_tt) writes, for mode k, the  *)
(* sample with mode value v, a-th prefix and b-th suffix at offset           *)
(*       GenPos(v, a, b) = v * l1 * l2 + a * l2 + b                          *)
(* of the block (l1 / l2 = number of prefixes / suffixes).  The consumer     *)
(* (svd_incomplete) reads the block as a C-ordered (n * l1) x l2 matrix,      *)
(* takes the prefix of row t from block position t * l2, and gives slice i    *)
(* the rows i * step .. (i+1) * step - 1, step = (n * l1) div n.              *)
(* TLC checks for all small (n, l1, l2) that every sample is read as the     *)
(* (value, prefix, suffix) it was generated for.                             *)
(* (ii) Recoverability: with expected rank m >= every TT-rank of the target,  *)
(* every mode size >= m and cap >= every TT-rank, the result equals the      *)
(* target; always: well-formed, target's shape, ranks <= cap.                *)
(***************************************************************************)
EXTENDS Integers, Sequences, FiniteSets, TLC, Json
CONSTANTS NMax, LMax, Cases
VARIABLE c

GenPos(v, a, b, l1, l2) == v * l1 * l2 + a * l2 + b
\* consumer: matrix row t, column b  <->  block position t * l2 + b ; slice i owns rows i*step .. (i+1)*step-1
ReadRow(pos, l2) == pos \div l2
ReadCol(pos, l2) == pos % l2
SliceOfRow(t, n, l1) == t \div ((n * l1) \div n)
PrefixPosOfRow(t, l2) == t * l2           \* I_curr[::l2] : the row whose prefix is used for matrix row t
LayoutAgree ==
  \A n \in 1..NMax, l1 \in 1..LMax, l2 \in 1..LMax :
    \A v \in 0..(n-1), a \in 0..(l1-1), b \in 0..(l2-1) :
       LET pos == GenPos(v, a, b, l1, l2)
           t == ReadRow(pos, l2)
       IN /\ ReadCol(pos, l2) = b                                  \* column = suffix number
          /\ SliceOfRow(t, n, l1) = v                              \* the row is given to slice v
          /\ t - v * l1 = a                                        \* and is the a-th row of that slice
          /\ PrefixPosOfRow(t, l2) = GenPos(v, a, 0, l1, l2)       \* its prefix is read from a sample with the same (v, a)

RECURSIVE MaxOf(_, _)
MaxOf(s, k) == IF k > Len(s) THEN 0 ELSE (IF s[k] > MaxOf(s, k + 1) THEN s[k] ELSE MaxOf(s, k + 1))
Rec(x) == /\ x.m >= MaxOf(x.rho, 1) /\ x.cap >= MaxOf(x.rho, 1)
          /\ \A k \in 1..Len(x.n) : x.n[k] >= x.m
Init == c \in Cases
Next == UNCHANGED c
Spec == Init /\ [][Next]_c
Emit == PrintT(ToJson([case |-> c, rec |-> Rec(c)]))

Profiles == { <<1, 2, 1>>, <<1, 3, 1>>, <<1, 2, 2, 1>>, <<1, 2, 3, 1>>, <<1, 3, 2, 1>>, <<1, 1, 2, 1>>, <<1, 2, 3, 3, 1>>, <<1, 3, 3, 2, 1>>, <<1, 1, 1, 1>> }
CasesQ == UNION { UNION { { [rho |-> rho, m |-> m, cap |-> cap, n |-> [k \in 1..(Len(rho)-1) |-> nn]] :
                             cap \in 1..(MaxOf(rho, 1) + 2), nn \in {m, m + 2} } :
                           m \in MaxOf(rho, 1)..(MaxOf(rho, 1) + 2) } : rho \in Profiles }
=============================================================================
