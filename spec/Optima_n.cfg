SPECIFICATION Spec
CONSTANTS
  Vals <- ValsS
  Profiles <- ProfN
  Seeds <- SeedsQ
  KSet <- KN
INVARIANT InBoundsInv
INVARIANT FullBeamExact
INVARIANT Emit
CHECK_DEADLOCK FALSE
