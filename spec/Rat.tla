---------------------------- MODULE Rat ----------------------------
(* Normalised rationals <<num, den>> with den > 0. *)
EXTENDS Integers
RECURSIVE GCD(_, _)
GCD(a, b) == IF b = 0 THEN (IF a < 0 THEN -a ELSE a) ELSE GCD(b, a % b)
RNorm(n, d) == LET s == IF d < 0 THEN -1 ELSE 1
                   g == GCD(IF n < 0 THEN -n ELSE n, IF d < 0 THEN -d ELSE d)
               IN IF n = 0 THEN <<0, 1>> ELSE <<(s * n) \div g, (s * d) \div g>>
RInt(n) == <<n, 1>>
RAdd(a, b) == LET g == GCD(a[2], b[2])  IN RNorm(a[1] * (b[2] \div g) + b[1] * (a[2] \div g), (a[2] \div g) * b[2])
RSub(a, b) == RAdd(a, <<-b[1], b[2]>>)
RAbs(x) == IF x < 0 THEN -x ELSE x
\* cross-cancel before multiplying so that intermediate products stay small
RMul(a, b) == LET g1 == GCD(RAbs(a[1]), b[2])  g2 == GCD(RAbs(b[1]), a[2])
                  h1 == IF g1 = 0 THEN 1 ELSE g1  h2 == IF g2 = 0 THEN 1 ELSE g2
              IN RNorm((a[1] \div h1) * (b[1] \div h2), (a[2] \div h2) * (b[2] \div h1))
RDiv(a, b) == RMul(a, IF b[1] < 0 THEN <<-b[2], -b[1]>> ELSE <<b[2], b[1]>>)
RLeq(a, b) == a[1] * b[2] <= b[1] * a[2]
RLess(a, b) == a[1] * b[2] < b[1] * a[2]
=============================================================================
