SPECIFICATION TSpec
INVARIANT ValidI
INVARIANT Dominant
INVARIANT RectCount
INVARIANT RectSmall
INVARIANT Accepted
CHECK_DEADLOCK FALSE
