---------------------------- MODULE Spectrum ----------------------------
(***************************************************************************)
(* The rank-selection rule shared by matrix_skeleton, matrix_svd, truncate, *)
(* svd, core_tt_to_qtt: given the squared singular values s2 (non-          *)
(* increasing sequence of naturals) and a budget for the discarded tail     *)
(* energy, keep the smallest number of values whose discarded tail is       *)
(* within the budget, then apply the cap, never returning less than 1.      *)
(* Budgets are "T + 1/2" for an integer T so that no case sits on an        *)
(* equality: tail <= T + 1/2  <=>  tail <= T.                               *)
(***************************************************************************)
EXTENDS Integers, Sequences, FiniteSets

RECURSIVE TailSum(_, _)
TailSum(s2, t) == IF t = 0 THEN 0 ELSE s2[Len(s2) - t + 1] + TailSum(s2, t - 1)

Max2(a, b) == IF a > b THEN a ELSE b
Min2s(a, b) == IF a < b THEN a ELSE b

(* largest t such that the t smallest values sum to at most T (+1/2) *)
TailDrop(s2, T) == CHOOSE t \in 0..Len(s2) :
                      /\ TailSum(s2, t) <= T
                      /\ \A u \in (t+1)..Len(s2) : TailSum(s2, u) > T
NeededRank(s2, T) == Len(s2) - TailDrop(s2, T)
RankSel(s2, T, cap) == Max2(1, Min2s(cap, NeededRank(s2, T)))
CapBinds(s2, T, cap) == NeededRank(s2, T) > cap
BestErr(s2, q) == TailSum(s2, Len(s2) - Min2s(q, Len(s2)))     \* discarded energy at rank q

IsSpectrum(s2) == \A k \in 1..(Len(s2)-1) : s2[k] >= s2[k+1]

(* ---- lemmas, model-checked on all small spectra (MC_Spectrum) ---- *)
LemMinimal(s2, T)  == LET q == NeededRank(s2, T) IN
                        /\ BestErr(s2, q) <= T
                        /\ (q >= 1 => BestErr(s2, q - 1) > T)
LemWithin(s2, T, cap) == (~CapBinds(s2, T, cap) /\ NeededRank(s2, T) >= 1)
                            => BestErr(s2, RankSel(s2, T, cap)) <= T
LemCap(s2, T, cap)  == RankSel(s2, T, cap) >= 1 /\ RankSel(s2, T, cap) <= Max2(1, cap)
LemMono(s2, T)      == NeededRank(s2, T + 1) <= NeededRank(s2, T)
LemZero(s2, T, cap) == (\A k \in 1..Len(s2) : s2[k] = 0) => RankSel(s2, T, cap) = 1
=============================================================================
