SPECIFICATION Spec
CONSTANTS
  Vals <- ValsS
  Profiles <- ProfT
  Seeds <- SeedsT
  KSet <- KQ
INVARIANT InBoundsInv
INVARIANT FullBeamExact
INVARIANT Rank1Exact
INVARIANT Emit
CHECK_DEADLOCK FALSE
