---------------------------- MODULE Trace_Maxvol ----------------------------
(* Trace validation of maxvol / maxvol_rect executions on integer matrices.   *)
(* Events come from the env-guarded hooks in teneva/maxvol.py (rows 0-based   *)
(* in the log, 1-based here):                                                 *)
(*   mv_init{I}  mv_swap{i,j,blo,bhi}  mv_conv{blo,bhi}  mv_ret{I,B_ok,dom_ok} *)
(*   mr_init{I0}  mr_add{i,flo,fhi}  mr_stop{}  mr_ret{I,B_ok,small_ok}       *)
(* blo/bhi (flo/fhi) bracket the logged float |B[i,j]| (F[i]) times Q.        *)
EXTENDS Maxvol, TLCExt, Json, IOUtils
Traces == JsonDeserialize(IOEnv.TRACE_FILE)
Q == 10000
VARIABLES tid, l
tvars == <<vars, tid, l>>
T == Traces[tid]
Ev == T.ev
E == Ev[l]
IsEv(name) == l <= Len(Ev) /\ E.ev = name
Adv == l' = l + 1 /\ tid' = tid
Stay == UNCHANGED <<tid, l>>
Plus1(s) == [a \in 1..Len(s) |-> s[a] + 1]

TInit == /\ tid \in 1..Len(Traces) /\ l = 1
         /\ A = Traces[tid].A /\ par = Traces[tid].par
         /\ I = <<>> /\ pc = "init" /\ nsw = 0

\* logged float ratio brackets the exact one: lo * |det| <= |num| * Q <= hi * |det|
Brackets(lo, hi, num, den) == lo * den <= num * Q /\ num * Q <= hi * den

TStart == IsEv("mv_init") /\ Start(Plus1(E.I)) /\ Adv
TSwap == /\ IsEv("mv_swap") /\ Swap(E.i + 1, E.j + 1) /\ Adv
         /\ Brackets(E.blo, E.bhi, Abs(Num(E.i + 1, E.j + 1)), Abs(DetI(I)))
TConv == IsEv("mv_conv") /\ Converged /\ Adv
         /\ Brackets(E.blo, E.bhi, MaxNum, Abs(DetI(I)))
TLimit == Limit /\ Stay
TRet == /\ IsEv("mv_ret") /\ pc \in {"conv", "limit"} /\ Adv
        /\ Plus1(E.I) = I /\ E.B_ok
        /\ (pc = "conv" => E.dom_ok)
        /\ IF T.rect THEN UNCHANGED vars ELSE pc' = "done" /\ UNCHANGED <<A, par, I, nsw>>
TRectStart == IsEv("mr_init") /\ RectStart /\ Adv /\ Plus1(E.I0) = I
TRectAdd == /\ IsEv("mr_add") /\ RectAdd(E.i + 1) /\ Adv
            /\ Brackets(E.flo, E.fhi, FNum(I, E.i + 1), FDen(I))
TRectStop == /\ RectStop /\ (IF IsEv("mr_stop") THEN Adv ELSE Stay)
             /\ (IsEv("mr_stop") <=> (Len(I) < par.rmax))
TRectRet == /\ IsEv("mr_ret") /\ pc = "rstop" /\ Adv
            /\ Plus1(E.I) = I /\ E.B_ok /\ E.small_ok
            /\ pc' = "done" /\ UNCHANGED <<A, par, I, nsw>>
TNext == TStart \/ TSwap \/ TConv \/ TLimit \/ TRet \/ TRectStart \/ TRectAdd \/ TRectStop \/ TRectRet
TSpec == TInit /\ [][TNext]_tvars
Accepted == (pc = "done" /\ l = Len(Ev) + 1) => PrintT(<<"ACCEPTED", tid>>)
Progress == PrintT(<<"AT", tid, l, pc>>)
=============================================================================
