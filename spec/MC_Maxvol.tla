---------------------------- MODULE MC_Maxvol ----------------------------
(* all integer matrices with entries in Ent of the given sizes, every admissible start, every tie choice *)
EXTENDS Maxvol, Json
CONSTANTS Sizes, Ent, KLim, DrSet, Emit
ENum == <<21, 20>>       \* e = 1.05
E2   == <<121, 100>>     \* e^2 for the rectangular stage (e = 1.1)
FullRank(M) == \E II \in [1..Len(M[1]) -> 1..Len(M)] : /\ \A a, b \in 1..Len(M[1]) : a < b => II[a] < II[b]
                                                         /\ Det([c \in 1..Len(M[1]) |-> M[II[c]]]) # 0
MCInit ==
  /\ \E sz \in Sizes : A \in [1..sz[1] -> [1..sz[2] -> Ent]]
  /\ FullRank(A)
  /\ \E k \in KLim : \E dr \in DrSet :
       par = [e |-> ENum, k |-> k, e2 |-> E2,
              rmin |-> IF dr[1] < 0 THEN -1 ELSE Len(A[1]) + dr[1],
              rmax |-> IF dr[1] < 0 THEN -1 ELSE (IF Len(A[1]) + dr[2] < Len(A) THEN Len(A[1]) + dr[2] ELSE Len(A))]
  /\ (par.rmax >= 0 => par.rmin <= par.rmax)
  /\ I = <<>> /\ pc = "init" /\ nsw = 0
MCNext ==
  \/ \E I0 \in [1..R -> 1..NR] : Start(I0)
  \/ \E i \in 1..NR, j \in 1..R : Swap(i, j)
  \/ Converged \/ Limit \/ RectStart
  \/ \E i \in 1..NR : RectAdd(i)
  \/ RectStop
MCSpec == MCInit /\ [][MCNext]_vars
MCFair == MCSpec /\ WF_vars(MCNext)
Terminates == <>(pc \in {"conv", "limit", "rstop"})
\* locally optimal index sets (for replay): emitted at convergence
EmitInv == (Emit /\ pc = "conv") => PrintT(ToJson([A |-> A, I |-> I]))
S31 == {<<3, 1>>}
S32 == {<<3, 2>>}
S42 == {<<4, 2>>, <<3, 1>>}
S43 == {<<4, 3>>}
S52 == {<<5, 2>>}
Ent01 == {0, 1}
NoDr == {<<-1, -1>>}
Dr012 == {<<0, 0>>, <<0, 1>>, <<1, 1>>, <<1, 2>>, <<2, 2>>, <<0, 3>>}
Dr3 == {<<0, 1>>, <<1, 2>>, <<2, 2>>}
EntS == {-1, 0, 1}
EntM == {-2, -1, 0, 1, 2}
K12 == {1, 2, 100}
K100 == {100}
=============================================================================
