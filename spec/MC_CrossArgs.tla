---------------------------- MODULE MC_CrossArgs ----------------------------
(* Table of the argument check of teneva.cross for all 2^5 combinations of    *)
(* the stop arguments (m, e, nswp, e_vld, validation data).                   *)
EXTENDS CrossContract, Json, TLC
VARIABLE a
AInit == a \in [hasM : BOOLEAN, hasEps : BOOLEAN, hasN : BOOLEAN, hasEv : BOOLEAN, hasData : BOOLEAN]
ANext == UNCHANGED a
ASpec == AInit /\ [][ANext]_a
AEmit == PrintT(ToJson([args |-> a, ok |-> ArgsOK(a.hasM, a.hasEps, a.hasN, a.hasEv, a.hasData)]))
=============================================================================
