---------------------------- MODULE MC_CrossArgs ----------------------------
(* Table of the argument check of teneva.cross for all 2^6 combinations of    *)
(* the stop arguments (m, e, nswp, e_vld, validation indices, validation values). *)
EXTENDS CrossContract, Json, TLC
VARIABLE a
AInit == a \in [hasM : BOOLEAN, hasEps : BOOLEAN, hasN : BOOLEAN, hasEv : BOOLEAN, hasI : BOOLEAN, hasY : BOOLEAN]
ANext == UNCHANGED a
ASpec == AInit /\ [][ANext]_a
AEmit == PrintT(ToJson([args |-> a, ok |-> ArgsOK6(a.hasM, a.hasEps, a.hasN, a.hasEv, a.hasI, a.hasY)]))
=============================================================================
