---------------------------- MODULE History ----------------------------
(***************************************************************************)
(* C10: results depend only on arguments and seed, not on global state or   *)
(* history.                                                                 *)
(*                                                                         *)
(* State: position of the global NumPy generator (gpos), positions of the   *)
(* caller's generator objects (gen), what the module-level default          *)
(* dictionaries hold (dflt: the variant of the last call that used them),   *)
(* and seen[key] = fingerprint of the first result observed for key.        *)
(* The KEY of a call is everything the contract allows the result to        *)
(* depend on:                                                               *)
(*    seeded call          <<"S", f, variant, seed>>                        *)
(*    call with generator  <<"G", f, variant, generator seed, draws so far>>*)
(*    deterministic call   <<"D", f, variant>>                              *)
(*    call using defaults  <<"W", f, variant>>   (info / cache omitted)     *)
(* The abstract implementation Impl(key, hidden) returns a fingerprint; the *)
(* specification says it ignores "hidden" = <<gpos, dflt, position in the   *)
(* history>>.  Faulty == TRUE switches on an implementation that leaks the  *)
(* hidden state (used to show that the invariant is not vacuous).           *)
(***************************************************************************)
EXTENDS Integers, Sequences, FiniteSets, TLC, Json

CONSTANTS MaxLen, Funcs, Variants, Seeds, Faulty
VARIABLES gpos, gen, dflt, seen, hist, ok
vars == <<gpos, gen, dflt, seen, hist, ok>>

Fp(key, hidden) == IF Faulty THEN <<key, hidden>> ELSE <<key>>

Init == /\ gpos = 0 /\ gen = [s \in Seeds |-> 0] /\ dflt = <<"none", 0>>
        /\ seen = [k \in {} |-> 0] /\ hist = <<>> /\ ok = TRUE

Observe(key, fp) ==
  /\ ok' = (ok /\ (key \in DOMAIN seen => seen[key] = fp))
  /\ seen' = IF key \in DOMAIN seen THEN seen ELSE [k \in DOMAIN seen \cup {key} |-> IF k = key THEN fp ELSE seen[k]]

CallSeeded(f, v, s) ==
  /\ Observe(<<"S", f, v, s>>, Fp(<<"S", f, v, s>>, <<gpos, dflt>>))
  /\ hist' = Append(hist, [op |-> "S", f |-> f, v |-> v, seed |-> s])
  /\ UNCHANGED <<gpos, gen, dflt>>               \* a seeded call leaves the global generator alone
CallGen(f, v, s) ==                              \* the caller's generator object created from seed s
  /\ Observe(<<"G", f, v, s, gen[s]>>, Fp(<<"G", f, v, s, gen[s]>>, <<gpos, dflt>>))
  /\ gen' = [gen EXCEPT ![s] = gen[s] + 1]       \* draws only from that object
  /\ hist' = Append(hist, [op |-> "G", f |-> f, v |-> v, seed |-> s, use |-> gen[s]])
  /\ UNCHANGED <<gpos, dflt>>
CallDet(f, v) ==
  /\ Observe(<<"D", f, v>>, Fp(<<"D", f, v>>, <<gpos, dflt>>))
  /\ hist' = Append(hist, [op |-> "D", f |-> f, v |-> v])
  /\ UNCHANGED <<gpos, gen, dflt>>
CallDefaults(f, v) ==                            \* optional dictionaries left at their defaults
  /\ Observe(<<"W", f, v>>, Fp(<<"W", f, v>>, <<gpos, dflt>>))
  /\ dflt' = <<f, v>>                            \* the default dictionary now holds this call's values
  /\ hist' = Append(hist, [op |-> "W", f |-> f, v |-> v])
  /\ UNCHANGED <<gpos, gen>>
Perturb ==                                       \* the user draws from / reseeds the global generator
  /\ gpos' = gpos + 1
  /\ hist' = Append(hist, [op |-> "P"])
  /\ UNCHANGED <<gen, dflt, seen, ok>>

Next == /\ Len(hist) < MaxLen
        /\ \/ \E f \in Funcs, v \in Variants, s \in Seeds : CallSeeded(f, v, s) \/ CallGen(f, v, s)
           \/ \E f \in Funcs, v \in Variants : CallDet(f, v) \/ CallDefaults(f, v)
           \/ Perturb
Spec == Init /\ [][Next]_vars

HistoryIndependent == ok
\* the library never moves the global generator: only Perturb does
GlobalUntouched == [][ gpos' # gpos => hist'[Len(hist')].op = "P" ]_vars
Emit == (Len(hist) = MaxLen) => PrintT(ToJson(hist))
=============================================================================
