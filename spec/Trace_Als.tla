---------------------------- MODULE Trace_Als ----------------------------
(* Trace validation of teneva.als / als_func executions (constant rank).     *)
(* Events (seams: module-level _optimize_core, cb=, return):                  *)
(*   opt{ks, fresh_l, fresh_r, cov_ok, opt_ok, desc_ok, stop}                 *)
(*        ks = indices of the cores equal to the core passed to the solver;   *)
(*        the flags are computed by the recorder from its own shadow copy:    *)
(*        interfaces equal those recomputed from the current cores, uncovered *)
(*        slices untouched, gradient of the regularised objective zero on the *)
(*        covered slices, objective not increased                             *)
(*   cb{nswp, ret, ehit, vhit, desc_ok}     (als only)                        *)
(*   swp{nswp, ehit, vhit}                  (als_func: no callback seam; the  *)
(*                                           recorder emits it at the sweep   *)
(*                                           boundary from info)              *)
(*   ret{stop, nswp, shape_ok, ranks_ok, last_opt_ok, info_ok}                *)
EXTENDS Als, TLCExt, Json, IOUtils
Traces == JsonDeserialize(IOEnv.TRACE_FILE)
VARIABLES tid, l
tvars == <<vars, tid, l>>
T == Traces[tid]
Ev == T.ev
E == Ev[l]
IsEv(name) == l <= Len(Ev) /\ E.ev = name
Adv == l' = l + 1 /\ tid' = tid
Stay == UNCHANGED <<tid, l>>

TInit == /\ tid \in 1..Len(Traces) /\ l = 1 /\ InitWith(Traces[tid].cfg)
TStart == \E v \in BOOLEAN : InitRight(v) /\ Stay
TOpt == /\ IsEv("opt") /\ UpdateCore /\ Adv
        /\ \E a \in 1..Len(E.ks) : E.ks[a] = k           \* the core the schedule prescribes
        /\ E.fresh_l /\ E.fresh_r                          \* FreshAtUse, observed
        /\ E.cov_ok /\ E.opt_ok /\ E.desc_ok
        /\ (nsw = 0 /\ E.stop # "none" => E.stop = stop)   \* outcome of the first stop test
TIface == UpdateInterface /\ Stay
TCb == /\ IsEv("cb") /\ SweepEnd(E.ret, E.ehit, E.vhit) /\ Adv
       /\ E.nswp = nsw /\ E.desc_ok
TSwp == /\ IsEv("swp") /\ SweepEnd(FALSE, E.ehit, E.vhit) /\ Adv
        /\ E.nswp = nsw
TRet == /\ IsEv("ret") /\ Return /\ Adv
        /\ E.stop = stop /\ E.nswp = nsw
        /\ E.shape_ok /\ E.ranks_ok /\ E.last_opt_ok /\ E.info_ok
TNext == TStart \/ TOpt \/ TIface \/ TCb \/ TSwp \/ TRet
TSpec == TInit /\ [][TNext]_tvars
Accepted == (pc = "done" /\ l = Len(Ev) + 1) => PrintT(<<"ACCEPTED", tid>>)
Progress == PrintT(<<"AT", tid, l, pc>>)
=============================================================================
