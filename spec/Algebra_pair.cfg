SPECIFICATION Spec
CONSTANTS
  Mode = "pair"
  Shapes <- ShapesA
  RankSets = {1, 2, 3}
  Seeds = {1, 2}
  Vals <- ValsZ
  AllShape <- Shape22
  AllRanks <- Ranks121
  Nums <- ValsZ
  K = 1
  MaxDepth = 0
INVARIANT DenoteOK
INVARIANT IfaceOK
INVARIANT StructuredOK
INVARIANT EmitPair
CHECK_DEADLOCK FALSE
