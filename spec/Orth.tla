---------------------------- MODULE Orth ----------------------------
(***************************************************************************)
(* C04: orthogonalisation of TT-tensors, abstractly.                         *)
(* Per core: status "L" (orthonormal columns of the left unfolding), "R"     *)
(* (orthonormal rows of the right unfolding) or "W" (unknown / carries the   *)
(* weight); rank vector; a version per core (bumped when the core's buffer   *)
(* is replaced) for the frame condition of the in-place single steps.        *)
(*   Left(i)   0 <= i <= d-2 : core i -> L, core i+1 -> W,                    *)
(*             r[i+1]' = min(r[i] n[i], r[i+1]); nothing else changes         *)
(*   Right(i)  1 <= i <= d-1 : core i -> R, core i-1 -> W,                    *)
(*             r[i]' = min(r[i], n[i] r[i+1])                                 *)
(*   Sweep(k)  orthogonalize(Y, k): Left(0..k-1) then Right(d-1..k+1)         *)
(*   out-of-range arguments are rejected (state unchanged)                    *)
(* Cores and bonds are numbered from 0 as in the library: core i has left     *)
(* rank r[i] and right rank r[i+1].                                          *)
(***************************************************************************)
EXTENDS Integers, Sequences, FiniteSets, TLC, Json

CONSTANTS Shapes, RankVals, MaxLen
VARIABLES n, r, st, ver, hist
vars == <<n, r, st, ver, hist>>
D == Len(n)
Min2(a, b) == IF a < b THEN a ELSE b
N(i) == n[i + 1]
Rk(i) == r[i + 1]          \* bond i, 0..D

Init == /\ n \in Shapes
        /\ r \in { x \in [1..(Len(n) + 1) -> RankVals \cup {1}] : x[1] = 1 /\ x[Len(n) + 1] = 1 }
        /\ st = [i \in 0..(Len(n) - 1) |-> "W"]
        /\ ver = [i \in 0..(Len(n) - 1) |-> 0]
        /\ hist = << [op |-> "init", i |-> 0, rejected |-> FALSE, r |-> r, st |-> [j \in 1..Len(n) |-> "W"], touched |-> {}] >>

Left(i) ==
  /\ i \in 0..(D - 2)
  /\ r' = [r EXCEPT ![i + 2] = Min2(Rk(i) * N(i), Rk(i + 1))]
  /\ st' = [st EXCEPT ![i] = "L", ![i + 1] = "W"]
  /\ ver' = [ver EXCEPT ![i] = ver[i] + 1, ![i + 1] = ver[i + 1] + 1]
Right(i) ==
  /\ i \in 1..(D - 1)
  /\ r' = [r EXCEPT ![i + 1] = Min2(Rk(i), N(i) * Rk(i + 1))]
  /\ st' = [st EXCEPT ![i] = "R", ![i - 1] = "W"]
  /\ ver' = [ver EXCEPT ![i] = ver[i] + 1, ![i - 1] = ver[i - 1] + 1]

StepLeft(i) ==
  /\ Len(hist) <= MaxLen
  /\ IF i \in 0..(D - 2) THEN Left(i) ELSE UNCHANGED <<r, st, ver>>
  /\ hist' = Append(hist, [op |-> "left", i |-> i, rejected |-> ~(i \in 0..(D - 2)), r |-> r', st |-> [j \in 1..D |-> st'[j - 1]],
                           touched |-> IF i \in 0..(D - 2) THEN {i, i + 1} ELSE {}])
  /\ UNCHANGED n
StepRight(i) ==
  /\ Len(hist) <= MaxLen
  /\ IF i \in 1..(D - 1) THEN Right(i) ELSE UNCHANGED <<r, st, ver>>
  /\ hist' = Append(hist, [op |-> "right", i |-> i, rejected |-> ~(i \in 1..(D - 1)), r |-> r', st |-> [j \in 1..D |-> st'[j - 1]],
                           touched |-> IF i \in 1..(D - 1) THEN {i, i - 1} ELSE {}])
  /\ UNCHANGED n

\* the composed sweep as a function on (r, st): Left(0), .., Left(k-1), Right(D-1), .., Right(k+1)
RECURSIVE SweepL(_, _, _), SweepR(_, _, _)
SweepL(rr, i, k) == IF i >= k THEN rr ELSE SweepL([rr EXCEPT ![i + 2] = Min2(rr[i + 1] * N(i), rr[i + 2])], i + 1, k)
SweepR(rr, i, k) == IF i <= k THEN rr ELSE SweepR([rr EXCEPT ![i + 1] = Min2(rr[i + 1], N(i) * rr[i + 2])], i - 1, k)
SweepRanks(k) == SweepR(SweepL(r, 0, k), D - 1, k)
StepSweep(k) ==
  /\ Len(hist) <= MaxLen
  /\ IF k \in 0..(D - 1)
       THEN /\ r' = SweepRanks(k)
            /\ st' = [j \in 0..(D - 1) |-> IF j < k THEN "L" ELSE IF j > k THEN "R" ELSE "W"]
            /\ ver' = [j \in 0..(D - 1) |-> ver[j] + 1]
       ELSE UNCHANGED <<r, st, ver>>
  /\ hist' = Append(hist, [op |-> "sweep", i |-> k, rejected |-> ~(k \in 0..(D - 1)), r |-> r', st |-> [j \in 1..D |-> st'[j - 1]], touched |-> {}])
  /\ UNCHANGED n

Next == \E i \in (-1)..(D) : StepLeft(i) \/ StepRight(i) \/ StepSweep(i)
Spec == Init /\ [][Next]_vars

(* ------------------------------ properties ------------------------------- *)
NoRankGrows == [][ \A b \in 1..(D + 1) : r'[b] <= r[b] ]_vars
RanksCarried == \A i \in 0..(D - 1) : (st[i] = "L" => Rk(i + 1) <= Rk(i) * N(i)) /\ (st[i] = "R" => Rk(i) <= N(i) * Rk(i + 1))
Boundary == r[1] = 1 /\ r[D + 1] = 1
\* frame condition of a single step: exactly the two adjacent cores get new buffers
Frame == [][ \A j \in 0..(D - 1) : ver'[j] # ver[j] =>
               \/ hist'[Len(hist')].op = "sweep"
               \/ j \in hist'[Len(hist')].touched ]_vars
\* a sweep equals the composition of the single steps (checked on the ranks and the statuses)
Emit == (Len(hist) = MaxLen + 1) => PrintT(ToJson([n |-> n, hist |-> hist]))
ShQ == { <<2, 3>>, <<3, 1, 2>>, <<2, 2, 2, 2>> }
ShT == { <<2, 3>>, <<3, 1, 2>>, <<2, 2, 2, 2>>, <<1, 4>>, <<3, 3, 3>>, <<2, 1, 1, 3, 2>> }
RV == {1, 2, 5}
=============================================================================
