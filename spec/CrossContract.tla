---------------------------- MODULE CrossContract ----------------------------
(* State-independent part of the contract of teneva.cross. *)
(* Argument check performed before anything is evaluated: some stop criterion *)
(* must exist, and an e_vld threshold needs validation data.                  *)
ArgsOK(hasM, hasEps, hasN, hasEv, hasData) ==
  /\ (hasM \/ hasEps \/ hasN \/ (hasData /\ hasEv))
  /\ (hasEv => hasData)
(* Validation data are two arguments (indices I_vld and values y_vld): they   *)
(* count as present only if BOTH are given.                                   *)
ArgsOK6(hasM, hasEps, hasN, hasEv, hasI, hasY) == ArgsOK(hasM, hasEps, hasN, hasEv, hasI /\ hasY)

=============================================================================
