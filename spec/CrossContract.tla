---------------------------- MODULE CrossContract ----------------------------
(* State-independent part of the contract of teneva.cross. *)
(* Argument check performed before anything is evaluated: some stop criterion *)
(* must exist, and an e_vld threshold needs validation data.                  *)
ArgsOK(hasM, hasEps, hasN, hasEv, hasData) ==
  /\ (hasM \/ hasEps \/ hasN \/ (hasData /\ hasEv))
  /\ (hasEv => hasData)

=============================================================================
