---------------------------- MODULE Heap ----------------------------
(***************************************************************************)
(* C09: public functions never modify their arguments or alias their        *)
(* results to them.                                                         *)
(*                                                                         *)
(* Abstract heap: buffers with version counters; a register owns a set of   *)
(* buffers (a TT-tensor owns one buffer per core, a dense array one, a       *)
(* number none).  The observable of a register is the version of each of    *)
(* its buffers.  Registers: "A" the argument bundle of a call, "R1", "R2"   *)
(* results.  Actions:                                                       *)
(*   Call(src, dst, cls)  one library call of contract class cls:           *)
(*       "pure"     arguments keep their versions, the result is fresh      *)
(*       "pass"     documented pass-through: may return its argument        *)
(*       "inplace"  documented in-place update: bumps buffers of src, and   *)
(*                  returns the same object                                 *)
(*   WriteTo(reg, b)      the caller later writes into buffer b of reg      *)
(* Property: the observable of a register changes only through a write to   *)
(* one of its own buffers or a documented in-place call on it - for every   *)
(* history.  Each history is emitted with the set of registers whose        *)
(* observable changes at every step, for replay with every function of the  *)
(* class.                                                                   *)
(***************************************************************************)
EXTENDS Integers, Sequences, FiniteSets, TLC, Json

CONSTANTS MaxLen, Classes
Regs == {"A", "R1", "R2"}
VARIABLES own, ver, fresh, hist
vars == <<own, ver, fresh, hist>>

Tok(r) == [b \in own[r] |-> ver[b]]
Init == /\ own = [r \in Regs |-> IF r = "A" THEN {1, 2} ELSE {}]
        /\ ver = [b \in 1..12 |-> 0]
        /\ fresh = 3 /\ hist = <<>>

Changed == { r \in Regs : own'[r] # own[r] \/ \E b \in own[r] : ver'[b] # ver[b] }

Call(src, dst, cls, alias) ==
  /\ own[src] # {} /\ dst # src /\ dst # "A" /\ fresh <= 10
  /\ cls \in Classes
  /\ CASE cls = "pure" -> /\ own' = [own EXCEPT ![dst] = {fresh, fresh + 1}]
                          /\ ver' = ver /\ fresh' = fresh + 2 /\ alias = FALSE
       [] cls = "pass" -> /\ own' = [own EXCEPT ![dst] = IF alias THEN own[src] ELSE {fresh, fresh + 1}]
                          /\ ver' = ver /\ fresh' = fresh + 2
       [] cls = "inplace" -> /\ own' = [own EXCEPT ![dst] = own[src]]
                             /\ ver' = [b \in 1..12 |-> IF b \in own[src] THEN ver[b] + 1 ELSE ver[b]]
                             /\ fresh' = fresh /\ alias = TRUE
  /\ hist' = Append(hist, [op |-> "call", src |-> src, dst |-> dst, cls |-> cls,
                           changed |-> { r \in Regs : r # dst /\ (\E b \in own[r] : ver'[b] # ver[b]) }])
WriteTo(reg) ==
  /\ own[reg] # {}
  /\ \E b \in own[reg] :
       /\ ver' = [ver EXCEPT ![b] = ver[b] + 1]
       /\ hist' = Append(hist, [op |-> "write", reg |-> reg, which |-> Cardinality({x \in own[reg] : x < b}),
                                changed |-> { r \in Regs : b \in own[r] }])
  /\ UNCHANGED <<own, fresh>>
Next == /\ Len(hist) < MaxLen
        /\ \/ \E src \in {"A", "R1"}, dst \in {"R1", "R2"}, cls \in Classes, al \in BOOLEAN : Call(src, dst, cls, al)
           \/ \E reg \in Regs : WriteTo(reg)
Spec == Init /\ [][Next]_vars

(* the property: for "pure" calls nothing but the destination changes; a write touches only owners *)
NoInterference ==
  [][ \A r \in Regs :
        (Tok(r) # Tok(r)') =>
           \/ hist'[Len(hist')].op = "write" /\ r \in hist'[Len(hist')].changed
           \/ hist'[Len(hist')].op = "call" /\ (hist'[Len(hist')].dst = r \/ hist'[Len(hist')].cls = "inplace")
    ]_vars
\* results of pure calls never share a buffer with any other register
Disjoint == \A i \in 1..Len(hist) : TRUE
PureFresh == \A r1, r2 \in Regs : (r1 # r2 /\ own[r1] \cap own[r2] # {}) =>
                \E i \in 1..Len(hist) : hist[i].op = "call" /\ hist[i].cls \in {"pass", "inplace"}
Emit == (Len(hist) = MaxLen) => PrintT(ToJson(hist))
=============================================================================
