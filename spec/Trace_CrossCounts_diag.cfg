SPECIFICATION TSpec
INVARIANT Accepted
INVARIANT Progress
CHECK_DEADLOCK FALSE
