SPECIFICATION Spec
CONSTANTS
  MaxLen = 3
  Det <- DetQ
  Rnd <- RndQ
  Faulty = FALSE
INVARIANT HistoryIndependent
INVARIANT Emit
PROPERTY GeneratorUntouched
CHECK_DEADLOCK FALSE
