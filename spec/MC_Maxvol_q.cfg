SPECIFICATION MCSpec
CONSTANTS
  Sizes <- S32
  Ent <- EntM
  KLim <- K12
  DrSet <- NoDr
  Emit = FALSE
INVARIANT ValidI
INVARIANT Dominant
INVARIANT IdentityRows
PROPERTY VolumeGrows
CHECK_DEADLOCK FALSE
