SPECIFICATION MCSpec
CONSTANTS
  Shape <- Shape_222
  R0 <- R0_1221
  Rho <- Rho_1221
  DrMin = 0
  DrMax = 0
  NSwp = 2
  MBig = 60
  WithCache = FALSE
  Mcs = 1000
  NoneMax = 13
  Pre <- Pre_none
  Emit = TRUE
INVARIANT DomainInv
INVARIANT BatchDistinct
INVARIANT BudgetInv
INVARIANT CountInv
INVARIANT FoldCompat
INVARIANT ReturnWF
INVARIANT SweepWF
INVARIANT StopInv
INVARIANT NestedInv
INVARIANT TypeOK
INVARIANT ScriptInv
INVARIANT EmitInv
VIEW ViewCounts
CHECK_DEADLOCK FALSE
