SPECIFICATION Spec
CONSTANTS
  Coefs1 <- CA
  Coefs2 <- CB
INVARIANT Emit
CHECK_DEADLOCK FALSE
