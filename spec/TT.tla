---------------------------- MODULE TT ----------------------------
(***************************************************************************)
(* Tensor-train tensors over the integers and their denotation.            *)
(* A core is a record [r1, n, r2, v] with v[a][i][b] (1-based sequences);   *)
(* a TT-tensor is a sequence of cores.  A dense tensor is its shape plus     *)
(* the flat sequence of entries in C order (last index fastest), which is   *)
(* numpy's ravel() order.                                                   *)
(***************************************************************************)
EXTENDS Integers, Sequences, FiniteSets

RECURSIVE Prod(_, _)
Prod(s, k) == IF k > Len(s) THEN 1 ELSE s[k] * Prod(s, k + 1)
Size(n) == Prod(n, 1)

RECURSIVE SumTo(_, _)
SumTo(F(_), r) == IF r = 0 THEN 0 ELSE F(r) + SumTo(F, r - 1)

(* C-order unravel: p in 1..Size(n) -> multi-index (1-based components) *)
RECURSIVE Unravel(_, _)
Unravel(p0, n) == IF Len(n) = 0 THEN <<>>
                  ELSE LET tailn == Tail(n)  sz == Size(tailn)
                       IN <<(p0 \div sz) + 1>> \o Unravel(p0 % sz, tailn)
MultiIdx(p, n) == Unravel(p - 1, n)

WellFormed(Y) ==
  /\ Len(Y) >= 1
  /\ Y[1].r1 = 1 /\ Y[Len(Y)].r2 = 1
  /\ \A k \in 1..(Len(Y)-1) : Y[k].r2 = Y[k+1].r1
  /\ \A k \in 1..Len(Y) : /\ Len(Y[k].v) = Y[k].r1
                           /\ \A a \in 1..Y[k].r1 : /\ Len(Y[k].v[a]) = Y[k].n
                                                     /\ \A i \in 1..Y[k].n : Len(Y[k].v[a][i]) = Y[k].r2

Shape(Y) == [k \in 1..Len(Y) |-> Y[k].n]
Ranks(Y) == <<1>> \o [k \in 1..Len(Y) |-> Y[k].r2]
NParams(Y) == LET F(k) == Y[k].r1 * Y[k].n * Y[k].r2 IN SumTo(F, Len(Y))

(* left interface vector after the first k cores at multi-index idx *)
RECURSIVE LeftVec(_, _, _)
LeftVec(Y, idx, k) ==
  IF k = 0 THEN <<1>>
  ELSE LET w == LeftVec(Y, idx, k - 1)
           c == Y[k]
       IN [b \in 1..c.r2 |-> LET F(a) == w[a] * c.v[a][idx[k]][b] IN SumTo(F, c.r1)]
RECURSIVE RightVec(_, _, _)
RightVec(Y, idx, k) ==       \* interface from the right, before core k (k = Len+1: <<1>>)
  IF k = Len(Y) + 1 THEN <<1>>
  ELSE LET w == RightVec(Y, idx, k + 1)
           c == Y[k]
       IN [a \in 1..c.r1 |-> LET F(b) == c.v[a][idx[k]][b] * w[b] IN SumTo(F, c.r2)]

Entry(Y, idx) == LeftVec(Y, idx, Len(Y))[1]
Denote(Y) == LET n == Shape(Y) IN [p \in 1..Size(n) |-> Entry(Y, MultiIdx(p, n))]

(* ---- dense reference operators (flat C-order sequences) ---- *)
DAdd(a, b) == [p \in 1..Len(a) |-> a[p] + b[p]]
DSub(a, b) == [p \in 1..Len(a) |-> a[p] - b[p]]
DMul(a, b) == [p \in 1..Len(a) |-> a[p] * b[p]]
DConst(sz, c) == [p \in 1..sz |-> c]
DOuter(a, b) == [p \in 1..(Len(a) * Len(b)) |-> a[((p-1) \div Len(b)) + 1] * b[((p-1) % Len(b)) + 1]]
DSum(a) == LET F(p) == a[p] IN SumTo(F, Len(a))
DDot(a, b) == LET F(p) == a[p] * b[p] IN SumTo(F, Len(a))

(* ---- structured operators (what the library does on the cores) ---- *)
AddFirst(c1, c2) ==      \* concatenation along the right rank
  [r1 |-> 1, n |-> c1.n, r2 |-> c1.r2 + c2.r2,
   v |-> << [i \in 1..c1.n |-> [b \in 1..(c1.r2 + c2.r2) |->
              IF b <= c1.r2 THEN c1.v[1][i][b] ELSE c2.v[1][i][b - c1.r2]]] >>]
AddLast(c1, c2) ==       \* concatenation along the left rank
  [r1 |-> c1.r1 + c2.r1, n |-> c1.n, r2 |-> 1,
   v |-> [a \in 1..(c1.r1 + c2.r1) |-> [i \in 1..c1.n |->
              << IF a <= c1.r1 THEN c1.v[a][i][1] ELSE c2.v[a - c1.r1][i][1] >>]]]
AddMid(c1, c2) ==        \* block diagonal
  [r1 |-> c1.r1 + c2.r1, n |-> c1.n, r2 |-> c1.r2 + c2.r2,
   v |-> [a \in 1..(c1.r1 + c2.r1) |-> [i \in 1..c1.n |-> [b \in 1..(c1.r2 + c2.r2) |->
              IF a <= c1.r1 /\ b <= c1.r2 THEN c1.v[a][i][b]
              ELSE IF a > c1.r1 /\ b > c1.r2 THEN c2.v[a - c1.r1][i][b - c1.r2] ELSE 0]]]]
Add(Y1, Y2) == [k \in 1..Len(Y1) |-> IF k = 1 THEN AddFirst(Y1[k], Y2[k])
                                  ELSE IF k = Len(Y1) THEN AddLast(Y1[k], Y2[k]) ELSE AddMid(Y1[k], Y2[k])]

MulCore(c1, c2) ==       \* Kronecker product of the rank indices: (a1, a2) -> (a1-1)*r(c2) + a2
  [r1 |-> c1.r1 * c2.r1, n |-> c1.n, r2 |-> c1.r2 * c2.r2,
   v |-> [a \in 1..(c1.r1 * c2.r1) |-> [i \in 1..c1.n |-> [b \in 1..(c1.r2 * c2.r2) |->
          c1.v[((a-1) \div c2.r1) + 1][i][((b-1) \div c2.r2) + 1] * c2.v[((a-1) % c2.r1) + 1][i][((b-1) % c2.r2) + 1]]]]]
Mul(Y1, Y2) == [k \in 1..Len(Y1) |-> MulCore(Y1[k], Y2[k])]
Outer(Y1, Y2) == Y1 \o Y2
=============================================================================
