SPECIFICATION Spec
CONSTANTS
  Mode = "prog"
  Shapes <- ShapesP
  RankSets = {1, 2}
  Seeds = {1, 2}
  Vals <- ValsZ
  AllShape <- Shape22
  AllRanks <- Ranks121
  Nums <- NumsA
  K = 3
  MaxDepth = 6
INVARIANT EmitProg
CHECK_DEADLOCK FALSE
