SPECIFICATION TSpec
INVARIANT FreshAtUse
INVARIANT BoundaryFresh
INVARIANT LastIsOne
INVARIANT StopInv
INVARIANT Accepted
CHECK_DEADLOCK FALSE
