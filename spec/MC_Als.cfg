SPECIFICATION MFair
CONSTANTS
  DSet <- D234
  NSwpSet <- NS
INVARIANT FreshAtUse
INVARIANT BoundaryFresh
INVARIANT LastIsOne
INVARIANT UpdatesPerSweep
INVARIANT StopInv
PROPERTY Terminates
CHECK_DEADLOCK FALSE
