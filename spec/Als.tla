---------------------------- MODULE Als ----------------------------
(***************************************************************************)
(* teneva.als / als_func with constant rank: the sweep automaton and the     *)
(* freshness of the interface matrices.                                      *)
(*                                                                         *)
(* ver[k]      version of core k (bumped by every update)                   *)
(* stL[k]      versions of cores 0..k-1 from which the left interface Yl[k]  *)
(*             was computed;  stR[k] likewise for cores k+1..D-1             *)
(* An interface is FRESH when its stamp equals the current versions.        *)
(* Actions follow the code: InitRight (right interfaces from the initial    *)
(* cores), UpdateCore(k) (solve the per-slice regularised least squares     *)
(* problem for every covered slice), UpdateInterface, SweepEnd(cbRet, eHit, *)
(* vHit) with the stop priority of _info_appr, Return.                      *)
(***************************************************************************)
EXTENDS Integers, Sequences, FiniteSets, TLC

VARIABLES cfg,      \* [d, nswp (-1 none), hasE, hasV]
          pc,       \* "start" | "ltr" | "ltrI" | "rtl" | "rtlI" | "sweepEnd" | "ret" | "done"
          k, nsw, stop, ver, stL, stR,
          last      \* core updated last (-1: none)
vars == <<cfg, pc, k, nsw, stop, ver, stL, stR, last>>
D == cfg.d

CurL(j) == [c \in 0..(j-1) |-> ver[c]]           \* what a fresh Yl[j] is computed from
CurR(j) == [c \in (j+1)..(D-1) |-> ver[c]]
FreshL(j) == stL[j] = CurL(j)
FreshR(j) == stR[j] = CurR(j)

InitWith(c) ==
  /\ cfg = c /\ pc = "start" /\ k = 0 /\ nsw = 0 /\ stop = "none" /\ last = -1
  /\ ver = [j \in 0..(c.d-1) |-> 0]
  /\ stL = [j \in 0..(c.d-1) |-> IF j = 0 THEN << >> ELSE <<-1>>]      \* only Yl[0] (= ones) is meaningful
  /\ stR = [j \in 0..(c.d-1) |-> IF j = c.d-1 THEN << >> ELSE <<-1>>]

InitRight(vHit) ==          \* right interfaces for k = d-1 .. 1, then the first _info_appr
  /\ pc = "start"
  /\ stR' = [j \in 0..(D-1) |-> CurR(j)]
  /\ (vHit => cfg.hasV)
  /\ stop' = IF vHit THEN "e_vld" ELSE IF cfg.nswp = 0 THEN "nswp" ELSE "none"
  /\ pc' = "ltr" /\ k' = 0
  /\ UNCHANGED <<cfg, nsw, ver, stL, last>>

UpdateCore ==               \* _optimize_core on core k with Yl[k], Yr[k]
  /\ pc \in {"ltr", "rtl"}
  /\ ver' = [ver EXCEPT ![k] = ver[k] + 1]
  /\ last' = k
  /\ pc' = IF pc = "ltr" THEN "ltrI" ELSE "rtlI"
  /\ UNCHANGED <<cfg, k, nsw, stop, stL, stR>>
UpdateInterface ==
  /\ pc \in {"ltrI", "rtlI"}
  /\ IF pc = "ltrI"
       THEN /\ stL' = [stL EXCEPT ![k+1] = CurL(k+1)] /\ UNCHANGED stR
            /\ IF k = D-2 THEN pc' = "rtl" /\ k' = D-1 ELSE pc' = "ltr" /\ k' = k+1
       ELSE /\ stR' = [stR EXCEPT ![k-1] = CurR(k-1)] /\ UNCHANGED stL
            /\ IF k = 1 THEN pc' = "sweepEnd" /\ k' = 0 ELSE pc' = "rtl" /\ k' = k-1
  /\ nsw' = IF pc = "rtlI" /\ k = 1 THEN nsw + 1 ELSE nsw
  /\ UNCHANGED <<cfg, stop, ver, last>>
SweepEnd(cbRet, eHit, vHit) ==
  /\ pc = "sweepEnd"
  /\ (eHit => cfg.hasE) /\ (vHit => cfg.hasV)
  /\ LET s1 == IF cbRet /\ stop = "none" THEN "cb" ELSE stop
         s2 == IF s1 = "none" /\ vHit THEN "e_vld" ELSE s1
         s3 == IF s2 = "none" /\ eHit THEN "e" ELSE s2
         s4 == IF s3 = "none" /\ cfg.nswp >= 0 /\ nsw >= cfg.nswp THEN "nswp" ELSE s3
     IN stop' = s4 /\ pc' = IF s4 = "none" THEN "ltr" ELSE "ret"
  /\ UNCHANGED <<cfg, k, nsw, ver, stL, stR, last>>
Return == pc = "ret" /\ pc' = "done" /\ UNCHANGED <<cfg, k, nsw, stop, ver, stL, stR, last>>

(* ------------------------------ properties ------------------------------- *)
\* interfaces are fresh whenever they are used
FreshAtUse == pc \in {"ltr", "rtl"} => FreshL(k) /\ FreshR(k)
\* at a sweep boundary every right interface is fresh: the state is a function of the cores alone,
\* hence a + b sweeps = a sweeps, restart, b sweeps
BoundaryFresh == pc = "sweepEnd" => \A j \in 0..(D-1) : FreshR(j)
\* update order: 0 .. d-2, then d-1 .. 1; the core updated last before a return is core 1
LastIsOne == pc \in {"sweepEnd", "ret", "done"} => last = (IF D >= 2 THEN 1 ELSE 0)
\* every core is updated exactly once per sweep except the two ends of the zig-zag (cores 0 and d-1 once, others twice)
UpdatesPerSweep == pc = "sweepEnd" =>
   \A j \in 0..(D-1) : ver[j] = nsw * (IF j = 0 \/ j = D-1 THEN 1 ELSE 2)
StopInv == pc \in {"ret", "done"} => /\ stop \in {"nswp", "e", "e_vld", "cb"}
                                     /\ (stop = "nswp" => nsw = cfg.nswp \/ (cfg.nswp = 0 /\ nsw = 1))
=============================================================================
