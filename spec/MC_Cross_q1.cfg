SPECIFICATION MCSpec
CONSTANTS
  Shape <- Shape_222
  R0 <- R0_1111
  Rho <- Rho_1221
  DrMin = 1
  DrMax = 1
  NSwp = 1
  MBig = 40
  WithCache = TRUE
  Mcs = 1000
  NoneMax = 8
  Pre <- Pre_none
  Emit = FALSE
INVARIANT DomainInv
INVARIANT BatchDistinct
INVARIANT BudgetInv
INVARIANT CountInv
INVARIANT FoldCompat
INVARIANT ReturnWF
INVARIANT SweepWF
INVARIANT StopInv
INVARIANT NestedInv
INVARIANT TypeOK
INVARIANT ScriptInv
CHECK_DEADLOCK FALSE
