---------------------------- MODULE Optima ----------------------------
(***************************************************************************)
(* C15: optimum search.  Slice-energy beam model of optima_tt_beam.          *)
(* On the orthogonalised tensor the norm of a partial product row equals the *)
(* Frobenius norm of the corresponding slice, so the beam is a function of   *)
(* the denoted tensor: after mode j the candidates are the k prefixes of     *)
(* largest slice energy  E(p) = sum_suffix Y[p, suffix]^2  among the          *)
(* extensions of the previous candidates; no pruning at the first mode; ties  *)
(* at the cut are nondeterministic.  The right-to-left search is the same     *)
(* search on the tensor with reversed mode order.  Integers throughout.       *)
(***************************************************************************)
EXTENDS Sampler, Json, FiniteSetsExt

CONSTANTS Vals, Profiles, Seeds, KSet
VARIABLES prof, y, yd, tab, kk, j, cand, hist
vars == <<prof, y, yd, tab, kk, j, cand, hist>>

CoreSet(r1, nn, r2) == { [r1 |-> r1, n |-> nn, r2 |-> r2, v |-> vv] : vv \in [1..r1 -> [1..nn -> [1..r2 -> Vals]]] }
H(s, k, a, i, b) == ((s * 7 + k * 13 + a * 3 + i * 5 + b * 11 + (s * a * i) + (k * b) + (s * s * b * i)) % 5) - 2
PalCore(s, k, r1, nn, r2) == [r1 |-> r1, n |-> nn, r2 |-> r2, v |-> [a \in 1..r1 |-> [i \in 1..nn |-> [b \in 1..r2 |-> H(s, k, a, i, b)]]]]
BulkF == { <<1, 2, 0>>, <<0, 1, 2>>, <<1, 1, 0>> }
BulkG == { <<1, 1, 1, 0>>, <<1, 1, 1, 1>> }
NeedlePos == { <<4, 4, 4, 4>>, <<4, 1, 2, 4>> }
Unit(i) == [q \in 1..(IF prof.r = -1 THEN 4 ELSE 3) |-> IF q = i THEN 1 ELSE 0]
Vec(u, c, r1, r2) == [r1 |-> 1, n |-> Len(u), r2 |-> 1, v |-> << [i \in 1..Len(u) |-> << c * u[i] >>] >>]
RankAt(p, k) == IF k = 1 \/ k = Len(p.n) + 1 THEN 1 ELSE p.r

Init ==
  /\ prof \in Profiles
  /\ IF prof.all
       THEN \E c1 \in CoreSet(1, prof.n[1], prof.r) : y = <<c1>>
       ELSE IF prof.r = 0      \* "needle beside a haystack": rank-1 bulk of one sign plus a single entry elsewhere
       THEN \E u1 \in BulkF, u2 \in BulkF, u3 \in BulkF, sg \in {-1, 1}, pos \in [1..3 -> 1..3], nv \in {5, 7} :
              y = Add(<< Vec(u1, sg, 1, 1), Vec(u2, 1, 1, 1), Vec(u3, 1, 1, 1) >>,
                      << Vec(Unit(pos[1]), sg * nv, 1, 1), Vec(Unit(pos[2]), 1, 1, 1), Vec(Unit(pos[3]), 1, 1, 1) >>)
       ELSE IF prof.r = -1     \* same idea in four dimensions: the bulk outweighs the needle in the slice energies
       THEN \E u1 \in BulkG, u2 \in BulkG, u3 \in BulkG, u4 \in BulkG, sg \in {-1, 1}, pos \in NeedlePos, nv \in {5, 9} :
              y = Add(<< Vec(u1, 2 * sg, 1, 1), Vec(u2, 1, 1, 1), Vec(u3, 1, 1, 1), Vec(u4, 1, 1, 1) >>,
                      << Vec(Unit(pos[1]), sg * nv, 1, 1), Vec(Unit(pos[2]), 1, 1, 1), Vec(Unit(pos[3]), 1, 1, 1), Vec(Unit(pos[4]), 1, 1, 1) >>)
       ELSE \E s \in Seeds : y = [k \in 1..Len(prof.n) |-> PalCore(s, k, RankAt(prof, k), prof.n[k], RankAt(prof, k + 1))]
  /\ yd = <<>> /\ tab = <<>> /\ kk \in KSet /\ j = 0 /\ cand = {} /\ hist = <<>>

Complete ==       \* choose the remaining cores (mode "all"), compute the denotation and the energy table once
  /\ j = 0
  /\ IF prof.all
       THEN \E c2 \in CoreSet(prof.r, prof.n[2], 1) : y' = y \o <<c2>>
       ELSE y' = y
  /\ yd' = Denote(y') /\ tab' = STable(Denote(y'), prof.n, TRUE)
  /\ j' = 1 /\ cand' = { <<i>> : i \in 1..prof.n[1] }       \* no pruning at the first mode
  /\ hist' = <<>>
  /\ UNCHANGED <<prof, kk>>

RECURSIVE PickT(_, _)
PickT(S0, t) == IF t = 0 THEN {} ELSE LET x == CHOOSE x \in S0 : TRUE IN {x} \cup PickT(S0 \ {x}, t - 1)
IsTopK(K, ext) == /\ K \subseteq ext
                  /\ Cardinality(K) = (IF Cardinality(ext) < kk THEN Cardinality(ext) ELSE kk)
                  /\ \A a \in K, b \in ext \ K : tab[a] >= tab[b]
BeamStep ==
  /\ j >= 1 /\ j < Len(prof.n)
  /\ LET ext == { Append(p, i) : p \in cand, i \in 1..prof.n[j + 1] }
         m == IF Cardinality(ext) < kk THEN Cardinality(ext) ELSE kk
         En == { tab[x] : x \in ext }
         thr == CHOOSE e \in En : Cardinality({ x \in ext : tab[x] > e }) < m /\ m <= Cardinality({ x \in ext : tab[x] >= e })
         above == { x \in ext : tab[x] > thr }
         equal == { x \in ext : tab[x] = thr }
     IN \E TT \in (IF m - Cardinality(above) = Cardinality(equal) THEN {equal}
                     ELSE IF prof.r < 0 THEN {PickT(equal, m - Cardinality(above))}     \* representative only (property-level replay)
                     ELSE kSubset(m - Cardinality(above), equal)) :            \* ties at the cut: any choice
          /\ cand' = above \cup TT
          /\ IsTopK(cand', ext)
  /\ j' = j + 1
  /\ hist' = Append(hist, Cardinality(cand'))
  /\ UNCHANGED <<prof, y, yd, tab, kk>>
Next == Complete \/ BeamStep
Spec == Init /\ [][Next]_vars

Done == j = Len(prof.n) /\ Len(prof.n) >= 1
N == Size(prof.n)
AbsI(x) == IF x < 0 THEN -x ELSE x
MaxAbs == LET S0 == { AbsI(yd[p]) : p \in 1..N } IN CHOOSE x \in S0 : \A z \in S0 : z <= x
MaxV == LET S0 == { yd[p] : p \in 1..N } IN CHOOSE x \in S0 : \A z \in S0 : z <= x
MinV == LET S0 == { yd[p] : p \in 1..N } IN CHOOSE x \in S0 : \A z \in S0 : z >= x
BestCand == LET S0 == { tab[c] : c \in cand } IN CHOOSE x \in S0 : \A z \in S0 : z <= x     \* = (max |entry| among candidates)^2

InBoundsInv == \A c \in cand : \A q \in 1..Len(c) : c[q] \in 1..prof.n[q]
\* nothing pruned => the true maximum modulus is among the candidates
FullBeamExact == (Done /\ kk >= N) => BestCand = MaxAbs * MaxAbs
\* rank 1: greedy is exact for every beam width
Rank1Exact == (Done /\ prof.r = 1) => BestCand = MaxAbs * MaxAbs
Emit == Done => PrintT(ToJson([cores |-> y, n |-> prof.n, k |-> kk, cand |-> cand, maxabs |-> MaxAbs, maxv |-> MaxV, minv |-> MinV,
                               r |-> prof.r, full |-> yd]))

ValsS == {-1, 1, 2}
ProfT == { [n |-> <<2, 3>>, r |-> 2, all |-> TRUE], [n |-> <<3, 2>>, r |-> 1, all |-> TRUE],
           [n |-> <<3, 1>>, r |-> 2, all |-> FALSE], [n |-> <<1, 3>>, r |-> 2, all |-> FALSE], [n |-> <<3, 1, 1>>, r |-> 2, all |-> FALSE], [n |-> <<1, 2, 1, 2>>, r |-> 2, all |-> FALSE], [n |-> <<2, 2, 2>>, r |-> 3, all |-> FALSE], [n |-> <<4, 1>>, r |-> 1, all |-> FALSE],
           [n |-> <<3, 3, 2>>, r |-> 2, all |-> FALSE], [n |-> <<2, 2, 2>>, r |-> 1, all |-> FALSE], [n |-> <<3, 3, 3>>, r |-> 3, all |-> FALSE],
           [n |-> <<2, 3, 2, 2>>, r |-> 2, all |-> FALSE], [n |-> <<4, 4>>, r |-> 2, all |-> FALSE], [n |-> <<2, 4, 2>>, r |-> 1, all |-> FALSE] }
ProfN == { [n |-> <<3, 3, 3>>, r |-> 0, all |-> FALSE], [n |-> <<4, 4, 4, 4>>, r |-> -1, all |-> FALSE] }
KN == {1, 2, 5}
ProfQ == { [n |-> <<2, 2>>, r |-> 2, all |-> TRUE], [n |-> <<3, 2>>, r |-> 1, all |-> TRUE],
           [n |-> <<3, 1>>, r |-> 2, all |-> FALSE], [n |-> <<1, 3>>, r |-> 2, all |-> FALSE], [n |-> <<3, 1, 1>>, r |-> 2, all |-> FALSE], [n |-> <<1, 2, 1, 2>>, r |-> 2, all |-> FALSE], [n |-> <<2, 2, 2>>, r |-> 3, all |-> FALSE],
           [n |-> <<3, 3, 2>>, r |-> 2, all |-> FALSE], [n |-> <<2, 2, 2>>, r |-> 1, all |-> FALSE],
           [n |-> <<2, 3, 2, 2>>, r |-> 2, all |-> FALSE], [n |-> <<4, 4>>, r |-> 2, all |-> FALSE] }
SeedsQ == 1..12
SeedsT == 1..40
KQ == {1, 2, 3, 100}
=============================================================================
