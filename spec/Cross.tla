---------------------------- MODULE Cross ----------------------------
(***************************************************************************)
(* teneva.cross (TT-cross): control flow, index sets, evaluation counters, *)
(* cache, stop contract and the bookkeeping of the pending factor R.       *)
(*                                                                         *)
(* One action per step of the code (teneva/cross.py):                      *)
(*   PreL / PreLFold / PreR / PreRFold   pre-iteration over the initial    *)
(*                                       tensor (maxvol with dr = 0)       *)
(*   Request                             _func builds the batch            *)
(*   EvalCall(isNone) / EvalSilent       _func_eval (objective called,     *)
(*                                       refused by budget, or all cached) *)
(*   Decide                              "if info['stop']" after _func     *)
(*   MainIterL / LtrFold / MainIterR / RtlFold      _iter + folding of R    *)
(*   SweepEnd(cbRet, eHit, vHit)         conv test, callback, _info_appr   *)
(*   RetFoldL / RetFoldR                 early return: fold pending R      *)
(*   Return                                                                *)
(* What the numerics decide (which rows maxvol picks, whether the accuracy *)
(* thresholds are met, what the objective / callback answer) enters as     *)
(* action parameters: the exhaustive model quantifies over them, the trace *)
(* specification binds them to logged values.                              *)
(*                                                                         *)
(* The configuration is a variable (constant along a behaviour) so that    *)
(* one TLC run can cover many configurations / many recorded traces.       *)
(***************************************************************************)
EXTENDS Integers, Sequences, FiniteSets, TLC, CrossContract

VARIABLES cfg,     \* [n, r0, drmin, drmax, nswp, mmax, cache, mcs, hasE, hasV, rho, pre]  (-1 = absent limit;
                   \*  pre = indices already in the cache dictionary when the call starts)
          pc, i,   \* control point, core pointer (0-based)
          Ir, Ic,  \* index sets: functions 0..D -> sequence of multi-indices (<<>> = absent)
          sh,      \* core shapes: 0..D-1 -> <<r_left, n, r_right>>
          pend,    \* shape <<rows, cols>> of the pending factor R
          m, mc,   \* info["m"], info["m_cache"]
          mplain,  \* what info["m"] would be without a cache (same batches)
          nsw, stop, cache, req, ncall,
          rs,      \* bond ranks at the start of the current sweep
          exact    \* prediction: the tensor at the last sweep end reproduces the target

vars == <<cfg, pc, i, Ir, Ic, sh, pend, m, mc, mplain, nsw, stop, cache, req, ncall, rs, exact>>

D     == Len(cfg.n)
Nk(k) == cfg.n[k+1]                       \* mode size of core k (0-based)
None  == <<>>
Card(S) == IF S = None THEN 1 ELSE Len(S)
Min2(a, b) == IF a < b THEN a ELSE b

(* Number of rows that _maxvol returns for a (rows x cols) unfolding whose  *)
(* reduced QR factor has k = min(rows, cols) columns.                      *)
RankRule(rows, cols, dmin, dmax) ==
  LET k == Min2(rows, cols) IN
  IF rows <= k THEN {rows}
  ELSE LET dM == Min2(dmax, rows - k)
           dm == Min2(dmin, dM)
       IN IF dM = 0 THEN {k} ELSE (k + dm)..(k + dM)

CandL(k) == IF Ir[k] = None THEN { <<j>> : j \in 0..(Nk(k)-1) }
            ELSE { Append(Ir[k][a], j) : a \in 1..Len(Ir[k]), j \in 0..(Nk(k)-1) }
CandR(k) == IF Ic[k+1] = None THEN { <<j>> : j \in 0..(Nk(k)-1) }
            ELSE { <<j>> \o Ic[k+1][a] : a \in 1..Len(Ic[k+1]), j \in 0..(Nk(k)-1) }

IsDistinctSeq(s) == Cardinality({ s[a] : a \in 1..Len(s) }) = Len(s)

ValidL(k, Inew, dmin, dmax, leftRank, colsOld) ==
  /\ Len(Inew) \in RankRule(leftRank * Nk(k), colsOld, dmin, dmax)
  /\ IsDistinctSeq(Inew)
  /\ \A a \in 1..Len(Inew) : Inew[a] \in CandL(k)
ValidR(k, Inew, dmin, dmax, rightRank, rowsOld) ==
  /\ Len(Inew) \in RankRule(rightRank * Nk(k), rowsOld, dmin, dmax)
  /\ IsDistinctSeq(Inew)
  /\ \A a \in 1..Len(Inew) : Inew[a] \in CandR(k)

(* The batch requested for core k in the code's order: Ir fastest, then    *)
(* the mode index, Ic slowest.                                             *)
Batch(k) ==
  LET r1 == Card(Ir[k])  r2 == Card(Ic[k+1])  n == Nk(k)
      row(p) == LET a == (p-1) % r1
                    j == ((p-1) \div r1) % n
                    b == (p-1) \div (r1*n)
                IN (IF Ir[k] = None THEN <<>> ELSE Ir[k][a+1]) \o <<j>>
                   \o (IF Ic[k+1] = None THEN <<>> ELSE Ic[k+1][b+1])
  IN [p \in 1..(r1*n*r2) |-> row(p)]

InBounds(idx) == Len(idx) = D /\ \A k \in 1..D : idx[k] \in 0..(cfg.n[k]-1)

Ranks == <<1>> \o [k \in 1..D |-> sh[k-1][3]]

InitWith(c) ==
  /\ cfg = c
  /\ pc = "preL" /\ i = 0
  /\ Ir = [k \in 0..Len(c.n) |-> None]
  /\ Ic = [k \in 0..Len(c.n) |-> None]
  /\ sh = [k \in 0..(Len(c.n)-1) |-> <<c.r0[k+1], c.n[k+1], c.r0[k+2]>>]
  /\ pend = <<1, 1>> /\ m = 0 /\ mc = 0 /\ mplain = 0 /\ nsw = 0 /\ stop = "none"
  /\ cache = { c.pre[a] : a \in 1..Len(c.pre) } /\ req = <<>> /\ ncall = 0
  /\ rs = c.r0 /\ exact = FALSE

(* ---- one _iter step ---------------------------------------------------- *)
IterL(k, Inew, dmin, dmax, leftRank, colsOld) ==
  /\ ValidL(k, Inew, dmin, dmax, leftRank, colsOld)
  /\ Ir' = [Ir EXCEPT ![k+1] = Inew]
  /\ sh' = [sh EXCEPT ![k] = <<leftRank, Nk(k), Len(Inew)>>]
  /\ pend' = <<Len(Inew), colsOld>>
IterR(k, Inew, dmin, dmax, rightRank, rowsOld) ==
  /\ ValidR(k, Inew, dmin, dmax, rightRank, rowsOld)
  /\ Ic' = [Ic EXCEPT ![k] = Inew]
  /\ sh' = [sh EXCEPT ![k] = <<Len(Inew), Nk(k), rightRank>>]
  /\ pend' = <<rowsOld, Len(Inew)>>

FoldLastL  == [sh EXCEPT ![D-1] = <<sh[D-1][1], sh[D-1][2], pend[2]>>]   \* Y[d-1] . R
FoldFirstR == [sh EXCEPT ![0]   = <<pend[1], sh[0][2], sh[0][3]>>]       \* R . Y[0]

(* ---- pre-iteration ------------------------------------------------------ *)
PreL(Inew) ==
  /\ pc = "preL"
  /\ IterL(i, Inew, 0, 0, IF i = 0 THEN 1 ELSE pend[1], sh[i][3])
  /\ IF i = D-1 THEN pc' = "preLfold" /\ i' = i ELSE pc' = pc /\ i' = i+1
  /\ UNCHANGED <<cfg, Ic, m, mc, mplain, nsw, stop, cache, req, ncall, rs, exact>>
PreLFold ==
  /\ pc = "preLfold" /\ sh' = FoldLastL /\ pend' = <<1, 1>> /\ pc' = "preR" /\ i' = D-1
  /\ UNCHANGED <<cfg, Ir, Ic, m, mc, mplain, nsw, stop, cache, req, ncall, rs, exact>>
PreR(Inew) ==
  /\ pc = "preR"
  /\ IterR(i, Inew, 0, 0, IF i = D-1 THEN 1 ELSE pend[2], sh[i][1])
  /\ IF i = 0 THEN pc' = "preRfold" /\ i' = i ELSE pc' = pc /\ i' = i-1
  /\ UNCHANGED <<cfg, Ir, m, mc, mplain, nsw, stop, cache, req, ncall, rs, exact>>
PreRFold(vHit) ==      \* _info_appr after the pre-iteration: e is still -1
  /\ pc = "preRfold" /\ sh' = FoldFirstR /\ pend' = <<1, 1>> /\ i' = 0 /\ pc' = "ltr"
  /\ (vHit => cfg.hasV)
  /\ stop' = IF vHit THEN "e_vld" ELSE IF cfg.nswp = 0 THEN "nswp" ELSE "none"
  /\ rs' = <<1>> \o [k \in 1..D |-> FoldFirstR[k-1][3]]
  /\ UNCHANGED <<cfg, Ir, Ic, m, mc, mplain, nsw, cache, req, ncall, exact>>

(* ---- request and evaluation --------------------------------------------- *)
Request ==
  /\ pc \in {"ltr", "rtl"}
  /\ req' = Batch(i)
  /\ pc' = IF pc = "ltr" THEN "ltrQ" ELSE "rtlQ"
  /\ UNCHANGED <<cfg, i, Ir, Ic, sh, pend, m, mc, mplain, nsw, stop, cache, ncall, rs, exact>>

NewIdx     == IF cfg.cache THEN SelectSeq(req, LAMBDA x : x \notin cache) ELSE req
(* with a cache the code evaluates the *distinct* new indices? no: it keeps  *)
(* duplicates of one batch (a batch never repeats an index: rows of Ir, Ic   *)
(* are distinct), see lemma BatchDistinct below.                            *)
OverBudget == cfg.mmax >= 0 /\ m + Len(NewIdx) > cfg.mmax
MustCall   == Len(NewIdx) > 0 \/ ~cfg.cache

EvalCall(isNone) ==     \* the objective is really called with NewIdx
  /\ pc \in {"ltrQ", "rtlQ"}
  /\ MustCall /\ ~OverBudget
  /\ ncall' = ncall + 1
  /\ IF isNone
       THEN /\ stop' = "func"
            /\ UNCHANGED <<m, mc, mplain, cache>>
       ELSE /\ m' = m + Len(NewIdx)
            /\ mc' = mc + (Len(req) - Len(NewIdx))
            /\ mplain' = mplain + Len(req)
            /\ cache' = IF cfg.cache THEN cache \cup { NewIdx[a] : a \in 1..Len(NewIdx) } ELSE cache
            /\ UNCHANGED stop
  /\ pc' = IF pc = "ltrQ" THEN "ltrD" ELSE "rtlD"
  /\ UNCHANGED <<cfg, i, Ir, Ic, sh, pend, nsw, req, rs, exact>>

EvalSilent ==           \* refused by the budget, or served from the cache
  /\ pc \in {"ltrQ", "rtlQ"}
  /\ \/ /\ OverBudget /\ MustCall
        /\ stop' = "m" /\ UNCHANGED <<m, mc, mplain>>
     \/ /\ cfg.cache /\ Len(NewIdx) = 0
        /\ mc' = mc + Len(req) /\ mplain' = mplain + Len(req) /\ UNCHANGED <<m, stop>>
  /\ pc' = IF pc = "ltrQ" THEN "ltrD" ELSE "rtlD"
  /\ UNCHANGED <<cfg, i, Ir, Ic, sh, pend, nsw, cache, req, ncall, rs, exact>>

Decide ==
  /\ pc \in {"ltrD", "rtlD"}
  /\ pc' = IF stop # "none" THEN (IF pc = "ltrD" THEN "retL" ELSE "retR")
           ELSE (IF pc = "ltrD" THEN "ltrI" ELSE "rtlI")
  /\ UNCHANGED <<cfg, i, Ir, Ic, sh, pend, m, mc, mplain, nsw, stop, cache, req, ncall, rs, exact>>

(* ---- main iteration ----------------------------------------------------- *)
MainIterL(Inew) ==
  /\ pc = "ltrI"
  /\ IterL(i, Inew, cfg.drmin, cfg.drmax, Card(Ir[i]), Card(Ic[i+1]))
  /\ IF i = D-1 THEN pc' = "ltrFold" /\ i' = i ELSE pc' = "ltr" /\ i' = i+1
  /\ UNCHANGED <<cfg, Ic, m, mc, mplain, nsw, stop, cache, req, ncall, rs, exact>>
LtrFold ==
  /\ pc = "ltrFold" /\ sh' = FoldLastL /\ pend' = <<1, 1>> /\ pc' = "rtl" /\ i' = D-1
  /\ UNCHANGED <<cfg, Ir, Ic, m, mc, mplain, nsw, stop, cache, req, ncall, rs, exact>>
MainIterR(Inew) ==
  /\ pc = "rtlI"
  /\ IterR(i, Inew, cfg.drmin, cfg.drmax, Card(Ic[i+1]), Card(Ir[i]))
  /\ IF i = 0 THEN pc' = "rtlFold" /\ i' = i ELSE pc' = "rtl" /\ i' = i-1
  /\ UNCHANGED <<cfg, Ir, m, mc, mplain, nsw, stop, cache, req, ncall, rs, exact>>
RtlFold ==
  /\ pc = "rtlFold" /\ sh' = FoldFirstR /\ pend' = <<1, 1>> /\ pc' = "sweepEnd" /\ i' = 0
  /\ nsw' = nsw + 1
  /\ stop' = IF mc > cfg.mcs * m THEN "conv" ELSE stop
  /\ exact' = \A k \in 1..(D+1) : rs[k] >= cfg.rho[k]
  /\ UNCHANGED <<cfg, Ir, Ic, m, mc, mplain, cache, req, ncall, rs>>

(* cbRet: the callback returned True; eHit / vHit: info["e"] / info["e_vld"] *)
(* are at or below their thresholds (only possible if the threshold exists)  *)
SweepEnd(cbRet, eHit, vHit) ==
  /\ pc = "sweepEnd"
  /\ (eHit => cfg.hasE) /\ (vHit => cfg.hasV)
  /\ LET s1 == IF cbRet /\ stop = "none" THEN "cb" ELSE stop
         s2 == IF s1 = "none" /\ vHit THEN "e_vld" ELSE s1
         s3 == IF s2 = "none" /\ eHit THEN "e" ELSE s2
         s4 == IF s3 = "none" /\ cfg.nswp >= 0 /\ nsw >= cfg.nswp THEN "nswp" ELSE s3
     IN /\ stop' = s4
        /\ pc' = IF s4 = "none" THEN "ltr" ELSE "ret"
  /\ rs' = Ranks
  /\ UNCHANGED <<cfg, i, Ir, Ic, sh, pend, m, mc, mplain, nsw, cache, req, ncall, exact>>

(* ---- returns ------------------------------------------------------------ *)
\* An interruption inside a sweep returns cores 0..i-1 of this sweep, the pending factor folded into core i, and the
\* cores of the previous half-sweep: if the tensor was exact at the last sweep end it still is (every rebuilt core is an
\* exact skeleton step on index sets of full rank), so the prediction survives the early return.
RetFoldL ==    \* Y[i] = R . Y[i]
  /\ pc = "retL" /\ pc' = "ret"
  /\ sh' = [sh EXCEPT ![i] = <<pend[1], sh[i][2], sh[i][3]>>]
  /\ exact' = exact
  /\ UNCHANGED <<cfg, i, Ir, Ic, pend, m, mc, mplain, nsw, stop, cache, req, ncall, rs>>
RetFoldR ==    \* Y[i] = Y[i] . R
  /\ pc = "retR" /\ pc' = "ret"
  /\ sh' = [sh EXCEPT ![i] = <<sh[i][1], sh[i][2], pend[2]>>]
  /\ exact' = exact
  /\ UNCHANGED <<cfg, i, Ir, Ic, pend, m, mc, mplain, nsw, stop, cache, req, ncall, rs>>
Return ==
  /\ pc = "ret" /\ pc' = "done"
  /\ UNCHANGED <<cfg, i, Ir, Ic, sh, pend, m, mc, mplain, nsw, stop, cache, req, ncall, rs, exact>>

(* ======================= properties (C05 / C06) ========================== *)
ChainOK == /\ sh[0][1] = 1 /\ sh[D-1][3] = 1
           /\ \A k \in 0..(D-2) : sh[k][3] = sh[k+1][1]
           /\ \A k \in 0..(D-1) : sh[k][2] = Nk(k)

DomainInv == \A p \in 1..Len(req) : InBounds(req[p])                      \* C06: index domain
BatchDistinct == IsDistinctSeq(req)
BudgetInv == cfg.mmax >= 0 => m <= cfg.mmax                              \* C06: budget
Pre0 == { cfg.pre[a] : a \in 1..Len(cfg.pre) }
CountInv  == /\ (cfg.cache => Cardinality(cache) = m + Cardinality(Pre0) /\ Pre0 \subseteq cache)                   \* C06: each index once
             /\ (cfg.cache => m + mc = mplain)                            \* C05: cache only moves counts
             /\ (~cfg.cache => mc = 0 /\ m = mplain)
             /\ m <= mplain
FoldCompat == /\ pc = "retL" => pend[2] = sh[i][1]                        \* pending R fits the core
              /\ pc = "retR" => pend[1] = sh[i][3]
              /\ pc = "ltrFold" => pend[1] = sh[D-1][3]
              /\ pc = "rtlFold" => pend[2] = sh[0][1]
ReturnWF  == pc \in {"ret", "done"} => ChainOK                            \* C06: interruption safety
SweepWF   == pc \in {"ltr", "sweepEnd"} /\ i = 0 => ChainOK
StopInv   == pc \in {"ret", "done"} =>
               /\ stop \in {"m", "func", "nswp", "cb", "conv", "e", "e_vld"}
               /\ (stop = "nswp" => nsw = cfg.nswp)
               /\ (stop = "m" => cfg.mmax >= 0 /\ m + Len(NewIdx) > cfg.mmax)
               /\ (stop = "e" => cfg.hasE) /\ (stop = "e_vld" => cfg.hasV)
               /\ (stop = "conv" => mc > cfg.mcs * m)
NestedInv == pc \notin {"preL", "preLfold", "preR", "preRfold"} =>
               /\ \A k \in 1..(D-1) : Ir[k] # None /\ \A a \in 1..Len(Ir[k]) : Len(Ir[k][a]) = k
               /\ \A k \in 1..(D-1) : Ic[k] # None /\ \A a \in 1..Len(Ic[k]) : Len(Ic[k][a]) = D - k
(* ranks never exceed what the rank rule allows: old rank + dr_max, and the   *)
(* bound of the unfolding                                                    *)
TypeOK == /\ m >= 0 /\ mc >= 0 /\ nsw >= 0 /\ ncall >= 0
          /\ pc \in {"preL","preLfold","preR","preRfold","ltr","ltrQ","ltrD","ltrI","ltrFold",
                     "rtl","rtlQ","rtlD","rtlI","rtlFold","sweepEnd","retL","retR","ret","done"}
=============================================================================
