SPECIFICATION Spec
CONSTANTS
  D = 3
  NPre = 2
  NE = 2
  EnSet <- E12
  LMin = 3
  LMax = 4
  FrSet <- Fr12
  Caps <- Caps12
  EpSet <- Eps2
INVARIANT AccumulatedBound
INVARIANT IntermediateBound
INVARIANT RankCap
INVARIANT Emit
CHECK_DEADLOCK FALSE
