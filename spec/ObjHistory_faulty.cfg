SPECIFICATION Spec
CONSTANTS
  MaxLen = 3
  Det <- DetQ
  Rnd <- RndQ
  Faulty = TRUE
INVARIANT HistoryIndependent
PROPERTY GeneratorUntouched
CHECK_DEADLOCK FALSE
