SPECIFICATION Spec
CONSTANTS D = 2
          NPre = 4
          NE = 4
          EnSet <- E12
          TMax = 12
          Dirs = {"ltr", "rel"}
          Caps = {1, 2, 3, 99}
          Canon = TRUE
INVARIANT ErrBound
INVARIANT RankCap
INVARIANT RankNoGrow
INVARIANT RankQuasiOpt
INVARIANT ErrVsBest
INVARIANT ExactKept
INVARIANT LiveOK
INVARIANT Emit
CHECK_DEADLOCK FALSE
