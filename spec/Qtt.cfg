SPECIFICATION Spec
CONSTANTS
  QD <- QDQ
INVARIANT Inverse
INVARIANT Onto
INVARIANT Emit
CHECK_DEADLOCK FALSE
