SPECIFICATION TSpec
INVARIANT DomainInv
INVARIANT BatchDistinct
INVARIANT BudgetInv
INVARIANT CountInv
INVARIANT FoldCompat
INVARIANT ReturnWF
INVARIANT StopInv
INVARIANT Accepted
CHECK_DEADLOCK FALSE
INVARIANT Progress
