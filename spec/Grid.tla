---------------------------- MODULE Grid ----------------------------
(***************************************************************************)
(* C18: grid index <-> point maps, in rationals.                            *)
(* Uniform grid on [a, b] with n nodes: x_i = a + i (b - a)/(n - 1).          *)
(* Chebyshev grid in the grid parameter t = theta/pi in [0, 1]:               *)
(*   node i <-> t = i/(n - 1), x = cos(pi t)(b - a)/2 + (a + b)/2, so index 0 *)
(*   is the UPPER bound.  A point is mapped to the index of a nearest node in *)
(*   the grid parameter u (u = (x - a)/(b - a), resp. u = t), either          *)
(*   neighbour at an exact midpoint, clamped to 0..n-1 outside the box.       *)
(* Also: scaling with clipping, flat grid order, empirical CDF, and the        *)
(* Dvoretzky-Kiefer-Wolfowitz band around it (cdf_confidence): the band half-  *)
(* width eps = sqrt(ln(2/alpha)/(2m)) is a rational parameter here; the replay  *)
(* picks alpha so that the routine's own eps is that rational.                  *)
(***************************************************************************)
EXTENDS Integers, Sequences, FiniteSets, TLC, Json, Rat, TT

CONSTANTS NSet, EighthsOut, FlatShapes, CdfSamples, CdfQueries, BandM, BandEps
VARIABLE c

\* nearest node(s) for the grid parameter u = <<p, q>> (q > 0): indices i with |u (n-1) - i| minimal, clamped
NearestSet(u, n) ==
  LET num == u[1] * (n - 1)  den == u[2]            \* position = num/den
      fl == IF num >= 0 THEN num \div den ELSE -((-num + den - 1) \div den)     \* floor
      twice == 2 * num - 2 * fl * den               \* 2 * fractional part * den, in 0..2den
      raw == IF twice < den THEN {fl} ELSE IF twice > den THEN {fl + 1} ELSE {fl, fl + 1}
      clamp(i) == IF i < 0 THEN 0 ELSE IF i > n - 1 THEN n - 1 ELSE i
  IN { clamp(i) : i \in raw }

\* grid parameters to query: every node, +-1/8 of a cell around every cell boundary, exact midpoints, outside
Params(n) == { <<8 * i, 8 * (n - 1)>> : i \in 0..(n - 1) }
        \cup { <<8 * i + 4 + e, 8 * (n - 1)>> : i \in 0..(n - 2), e \in {-1, 0, 1} }
        \cup { <<e, 8>> : e \in EighthsOut }
Scale01(u) == IF u[1] < 0 THEN <<0, 1>> ELSE IF u[1] > u[2] THEN <<1, 1>> ELSE RNorm(u[1], u[2])

\* DKW band around the empirical CDF values k/m (k = 1..m), half-width eps = <<p, 64>>, clipped to [0, 1]; in 64m-ths
BandLo(k, m, e) == LET v == 64 * k - e * m IN RNorm(IF v < 0 THEN 0 ELSE v, 64 * m)
BandHi(k, m, e) == LET v == 64 * k + e * m IN RNorm(IF v > 64 * m THEN 64 * m ELSE v, 64 * m)
Cases ==
  { [kind |-> "near", n |-> n, u |-> u] : n \in NSet, u \in UNION { Params(m) : m \in NSet } } \cup
  { [kind |-> "flat", shape |-> s] : s \in FlatShapes } \cup
  { [kind |-> "cdf", smp |-> s, z |-> z] : s \in CdfSamples, z \in CdfQueries } \cup
  { [kind |-> "band", m |-> m, eps |-> e] : m \in BandM, e \in BandEps }
Init == c \in Cases
Next == UNCHANGED c
Spec == Init /\ [][Next]_c

\* flat grid: all multi-indices exactly once, first index fastest = reversed C order of the reversed shape
Rev(s) == [k \in 1..Len(s) |-> s[Len(s) + 1 - k]]
FlatRow(p, shape) == Rev([k \in 1..Len(shape) |-> MultiIdx(p, Rev(shape))[k] - 1])
Expected ==
  CASE c.kind = "near" -> [idx |-> NearestSet(c.u, c.n), scaled |-> Scale01(c.u)]
    [] c.kind = "flat" -> [rows |-> [p \in 1..Size(c.shape) |-> FlatRow(p, c.shape)]]
    [] c.kind = "band" -> [lo |-> [k \in 1..c.m |-> BandLo(k, c.m, c.eps)], hi |-> [k \in 1..c.m |-> BandHi(k, c.m, c.eps)]]
    [] c.kind = "cdf" -> [num |-> Cardinality({ k \in 1..Len(c.smp) : c.smp[k] <= c.z }), den |-> Len(c.smp)]

\* a node is mapped to itself; the map is monotone in the parameter
NodeFixed == c.kind = "near" => \A i \in 0..(c.n - 1) : NearestSet(<<i, c.n - 1>>, c.n) = {i}
FlatBijective == c.kind = "flat" =>
   /\ Cardinality({ FlatRow(p, c.shape) : p \in 1..Size(c.shape) }) = Size(c.shape)
   /\ \A p \in 1..(Size(c.shape) - 1) : (p % c.shape[1] # 0) => FlatRow(p + 1, c.shape)[1] = FlatRow(p, c.shape)[1] + 1
\* the band contains the empirical CDF, stays in [0, 1], is monotone, is never wider than 2 eps and is exactly 2 eps wide
\* wherever neither side is clipped
BandSound == c.kind = "band" => \A k \in 1..c.m :
   LET lo == BandLo(k, c.m, c.eps)  hi == BandHi(k, c.m, c.eps)  x == RNorm(k, c.m) IN
   /\ RLeq(<<0, 1>>, lo) /\ RLeq(lo, x) /\ RLeq(x, hi) /\ RLeq(hi, <<1, 1>>)
   /\ RLeq(RSub(hi, lo), RNorm(2 * c.eps, 64))
   /\ (64 * k - c.eps * c.m >= 0 /\ 64 * k + c.eps * c.m <= 64 * c.m) => RSub(hi, lo) = RNorm(2 * c.eps, 64)
   /\ k < c.m => (RLeq(lo, BandLo(k + 1, c.m, c.eps)) /\ RLeq(hi, BandHi(k + 1, c.m, c.eps)))
Emit == PrintT(ToJson([case |-> c, exp |-> Expected]))
NQ == {2, 3, 4, 5, 8, 16}
NT == {2, 3, 4, 5, 6, 7, 8, 9, 16, 17, 33, 64}
Out == {-8, -1, 9, 24}
FS == { <<2>>, <<2, 3>>, <<3, 2, 2>>, <<1, 3>>, <<2, 2, 2, 2>> }
CS == { <<3, 1, 2>>, <<1, 1, 2, 2, 5>>, <<4>>, <<-1, 0, 0, 3>> }
BM == {1, 2, 3, 5, 8, 13}
BE == {1, 4, 9, 16, 31, 32, 33, 64, 80}
CQ == {-2, -1, 0, 1, 2, 3, 4, 5, 6}
=============================================================================
