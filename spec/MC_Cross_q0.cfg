SPECIFICATION MCSpec
CONSTANTS
  Shape <- Shape_23
  R0 <- R0_111
  Rho <- Rho_121
  DrMin = 1
  DrMax = 1
  NSwp = 2
  MBig = 30
  WithCache = TRUE
  Mcs = 1000
  NoneMax = 8
  Pre <- Pre_none
  Emit = FALSE
INVARIANT DomainInv
INVARIANT BatchDistinct
INVARIANT BudgetInv
INVARIANT CountInv
INVARIANT FoldCompat
INVARIANT ReturnWF
INVARIANT SweepWF
INVARIANT StopInv
INVARIANT NestedInv
INVARIANT TypeOK
INVARIANT ScriptInv
PROPERTY Refines
CHECK_DEADLOCK FALSE
