---------------------------- MODULE MC_Cross ----------------------------
(* Exhaustive exploration of Cross: every fault script (every budget,      *)
(* every position at which the objective returns None, every sweep at      *)
(* which the callback / accuracy criteria fire) times every choice of rows *)
(* that the rank rule allows.                                              *)
EXTENDS Cross, SequencesExt, Json

CONSTANTS Shape, R0, DrMin, DrMax, NSwp, MBig, WithCache, Mcs, NoneMax, Rho, Emit, Pre

VARIABLES noneAt, cbAt, eAt, vAt       \* fault script, fixed in Init
mcvars == <<vars, noneAt, cbAt, eAt, vAt>>

Subsets(S, q) == { X \in SUBSET S : Cardinality(X) = q }
ChoicesL(k, dmin, dmax, leftRank, colsOld) ==
  { SetToSeq(X) : X \in UNION { Subsets(CandL(k), q) : q \in RankRule(leftRank * Nk(k), colsOld, dmin, dmax) } }
ChoicesR(k, dmin, dmax, rightRank, rowsOld) ==
  { SetToSeq(X) : X \in UNION { Subsets(CandR(k), q) : q \in RankRule(rightRank * Nk(k), rowsOld, dmin, dmax) } }

B2N(b) == IF b THEN 1 ELSE 0
BaseCfg(mm) == [n |-> Shape, r0 |-> R0, drmin |-> DrMin, drmax |-> DrMax, nswp |-> NSwp,
                mmax |-> mm, cache |-> WithCache, mcs |-> Mcs, hasE |-> TRUE, hasV |-> TRUE, rho |-> Rho,
                pre |-> IF WithCache THEN Pre ELSE <<>>]

MCInit ==
  /\ \E mm \in {-1} \cup (1..MBig) : InitWith(BaseCfg(mm))
  /\ noneAt \in 0..NoneMax
  /\ cbAt \in 0..(IF NSwp >= 0 THEN NSwp ELSE 2)
  /\ eAt \in 0..(IF NSwp >= 0 THEN NSwp ELSE 2)
  /\ vAt \in (-1)..(IF NSwp >= 0 THEN NSwp ELSE 2)            \* -1 never, 0 = after pre-iteration
  \* one interruption dimension at a time (plus the sweep limit)
  /\ B2N(cfg.mmax # (-1)) + B2N(noneAt # 0) + B2N(cbAt # 0) + B2N(eAt # 0) + B2N(vAt # (-1)) <= 1
  /\ (NSwp >= 0 \/ cfg.mmax # (-1) \/ cbAt # 0 \/ eAt # 0 \/ vAt # (-1))

K == UNCHANGED <<noneAt, cbAt, eAt, vAt>>

MCNext ==
  \/ K /\ \E X \in ChoicesL(i, 0, 0, IF i = 0 THEN 1 ELSE pend[1], sh[i][3]) : PreL(X)
  \/ K /\ PreLFold
  \/ K /\ \E X \in ChoicesR(i, 0, 0, IF i = D-1 THEN 1 ELSE pend[2], sh[i][1]) : PreR(X)
  \/ K /\ PreRFold(vAt = 0)
  \/ K /\ Request
  \/ K /\ EvalCall(noneAt = ncall + 1)
  \/ K /\ EvalSilent
  \/ K /\ Decide
  \/ K /\ \E X \in ChoicesL(i, cfg.drmin, cfg.drmax, Card(Ir[i]), Card(Ic[i+1])) : MainIterL(X)
  \/ K /\ LtrFold
  \/ K /\ \E X \in ChoicesR(i, cfg.drmin, cfg.drmax, Card(Ic[i+1]), Card(Ir[i])) : MainIterR(X)
  \/ K /\ RtlFold
  \/ K /\ SweepEnd(cbAt = nsw, eAt = nsw, vAt = nsw)
  \/ K /\ RetFoldL
  \/ K /\ RetFoldR
  \/ K /\ Return

MCSpec == MCInit /\ [][MCNext]_mcvars
MCSpecFair == MCSpec /\ WF_mcvars(MCNext)

(* script-level stop contract *)
(* Cross implements its size abstraction CrossCounts (refinement mapping: index sets -> their sizes) *)
Abs == INSTANCE CrossCounts WITH rl <- [kk \in 0..D |-> Card(Ir[kk])], rc <- [kk \in 0..D |-> Card(Ic[kk])], bsz <- Len(req)
Refines == Abs!ASpec

ScriptInv == pc = "done" =>
   /\ (stop = "cb" => cbAt = nsw)
   /\ (stop = "func" => noneAt = ncall)
   /\ (stop = "e" => eAt = nsw)
   /\ (stop = "e_vld" => vAt = nsw \/ (vAt = 0 /\ nsw = 0))
   /\ (noneAt # 0 /\ ncall >= noneAt => stop = "func")
(* the run terminates when a sweep limit or a budget (without cache) exists *)
Terminates == <>(pc = "done")

(* deterministic configurations (dr = 0/0 keeps every rank fixed, no cache): *)
(* the final counters are a function of the script - emitted for replay      *)
EmitInv == (Emit /\ pc = "done") =>
   PrintT(ToJson([n |-> cfg.n, r0 |-> cfg.r0, drmin |-> cfg.drmin, drmax |-> cfg.drmax, nswp |-> cfg.nswp,
                  mmax |-> cfg.mmax, cache |-> cfg.cache, noneAt |-> noneAt, cbAt |-> cbAt, eAt |-> eAt, vAt |-> vAt,
                  m |-> m, mc |-> mc, mplain |-> mplain, nsw |-> nsw, stop |-> stop, ranks |-> Ranks, ncall |-> ncall]))
(* counters do not depend on *which* rows were chosen when there is no cache: *)
(* a view that keeps only the sizes of the index sets (emission runs)         *)
ViewCounts == <<cfg, pc, i, [k \in 0..D |-> Card(Ir[k])], [k \in 0..D |-> Card(Ic[k])], sh, pend, m, mc, mplain,
                nsw, stop, Len(req), ncall, rs, exact, noneAt, cbAt, eAt, vAt>>
(* cache transparency at the design level: hiding the cache, the counters and  *)
(* the cache flag, the reachable behaviour with and without cache is the same  *)
ViewNoCache == <<cfg.n, cfg.r0, cfg.nswp, pc, i, Ir, Ic, sh, pend, nsw, stop, req, rs, exact, cbAt, eAt, vAt>>

(* named constant values for the .cfg files (a cfg cannot hold tuples) *)
Shape_222 == <<2, 2, 2>>
Shape_23  == <<2, 3>>
Shape_33  == <<3, 3>>
Shape_212 == <<2, 1, 2>>
R0_1111 == <<1, 1, 1, 1>>
R0_1221 == <<1, 2, 2, 1>>
R0_111  == <<1, 1, 1>>
R0_121  == <<1, 2, 1>>
R0_131  == <<1, 3, 1>>
Rho_1221 == <<1, 2, 2, 1>>
Rho_121  == <<1, 2, 1>>
Pre_none == <<>>
Pre_222  == << <<0, 0, 0>>, <<1, 0, 1>>, <<1, 1, 1>> >>
Pre_23   == << <<0, 0>>, <<1, 2>> >>
=============================================================================
