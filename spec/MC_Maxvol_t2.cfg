SPECIFICATION MCSpec
CONSTANTS
  Sizes <- S43
  Ent <- Ent01
  KLim <- K12
  DrSet <- NoDr
  Emit = FALSE
INVARIANT ValidI
INVARIANT Dominant
INVARIANT IdentityRows
PROPERTY VolumeGrows
CHECK_DEADLOCK FALSE
