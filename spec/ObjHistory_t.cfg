SPECIFICATION Spec
CONSTANTS
  MaxLen = 3
  Det <- DetT
  Rnd <- RndT
  Faulty = FALSE
INVARIANT HistoryIndependent
INVARIANT Emit
PROPERTY GeneratorUntouched
CHECK_DEADLOCK FALSE
