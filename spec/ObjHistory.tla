---------------------------- MODULE ObjHistory ----------------------------
(***************************************************************************)
(* C10 for objects with methods (teneva.ANOVA): the result of a method call *)
(* depends only on what the object was built from (data, order, seed), on   *)
(* the arguments of the call and - for methods that draw random numbers -   *)
(* on the calls that drew from the object's generator before; it does NOT   *)
(* depend on which other methods were called, with which options, in        *)
(* between.                                                                 *)
(*                                                                         *)
(* State of one object: rseq = the stochastic calls made so far (they       *)
(* determine the position of the object's own generator), memo = the set    *)
(* of deterministic calls made so far (what lazily built tables / memoised  *)
(* results the object may hold: hidden state).                              *)
(* KEY of a call:                                                           *)
(*    deterministic method  <<"M", x>>                                      *)
(*    stochastic method     <<"R", x, rseq>>                                *)
(* where x identifies method + options.  The abstract implementation        *)
(* returns a fingerprint Fp(key, hidden); the specification says it ignores *)
(* hidden = memo.  Faulty = TRUE leaks it (non-vacuity of the invariant).   *)
(* TLC emits every call sequence up to MaxLen; the harness runs each one on *)
(* a fresh object and compares real fingerprints by the same keys.          *)
(***************************************************************************)
EXTENDS Integers, Sequences, FiniteSets, TLC, Json

CONSTANTS MaxLen, Det, Rnd, Faulty
VARIABLES rseq, memo, seen, hist, ok
vars == <<rseq, memo, seen, hist, ok>>

Fp(key, hidden) == IF Faulty THEN <<key, hidden>> ELSE <<key>>

Init == rseq = <<>> /\ memo = {} /\ seen = [k \in {} |-> 0] /\ hist = <<>> /\ ok = TRUE

Observe(key, fp) ==
  /\ ok' = (ok /\ (key \in DOMAIN seen => seen[key] = fp))
  /\ seen' = IF key \in DOMAIN seen THEN seen ELSE [k \in DOMAIN seen \cup {key} |-> IF k = key THEN fp ELSE seen[k]]

CallDet(x) ==
  /\ Observe(<<"M", x>>, Fp(<<"M", x>>, memo))
  /\ memo' = memo \cup {x}                       \* the object may now hold tables built for x
  /\ hist' = Append(hist, [op |-> "M", x |-> x])
  /\ UNCHANGED rseq                              \* a deterministic method leaves the object's generator alone
CallRnd(x) ==
  /\ Observe(<<"R", x, rseq>>, Fp(<<"R", x, rseq>>, memo))
  /\ rseq' = Append(rseq, x)
  /\ hist' = Append(hist, [op |-> "R", x |-> x])
  /\ UNCHANGED memo
\* a second object built from the same data and seed starts from the same state: modelled by Reset (fresh object)
Reset ==
  /\ hist # <<>> /\ hist[Len(hist)].op # "N"
  /\ rseq' = <<>> /\ memo' = {}
  /\ hist' = Append(hist, [op |-> "N", x |-> "new"])
  /\ UNCHANGED <<seen, ok>>

Next == /\ Len(hist) < MaxLen
        /\ \/ \E x \in Det : CallDet(x)
           \/ \E x \in Rnd : CallRnd(x)
           \/ Reset
Spec == Init /\ [][Next]_vars

HistoryIndependent == ok
\* only stochastic calls move the object's generator
GeneratorUntouched == [][ rseq' # rseq => hist'[Len(hist')].op \in {"R", "N"} ]_vars
Emit == (Len(hist) = MaxLen) => PrintT(ToJson(hist))

\* cores(noise = 0) returns a deterministic tensor but still draws from the object's generator: stochastic class
DetQ == {"call", "cores2", "cores2_near", "max"}
RndQ == {"cores_r2", "cores_n0", "sample"}
DetT == {"call", "getitem", "cores2", "cores2_near", "cores2_r3", "f1", "f2", "max", "max_min"}
RndT == {"cores_r2", "cores_r4_near", "cores_n0", "cores_n0_near", "sample"}
\* teneva.ANOVA_func: lazily computed coefficients (property), cores at several accuracies; no randomness
DetF == {"coeffs", "cores_e8", "cores_e2", "cores_e12", "cores_e0"}
RndF == {}
=============================================================================
