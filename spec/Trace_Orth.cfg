SPECIFICATION TSpec
CONSTANTS
  Shapes <- ShQ
  RankVals <- RV
  MaxLen = 2
INVARIANT RanksCarried
INVARIANT Accepted
CHECK_DEADLOCK FALSE
