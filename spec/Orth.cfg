SPECIFICATION Spec
CONSTANTS
  Shapes <- ShQ
  RankVals <- RV
  MaxLen = 2
INVARIANT RanksCarried
INVARIANT Boundary
INVARIANT Emit
PROPERTY NoRankGrows
PROPERTY Frame
CHECK_DEADLOCK FALSE
