SPECIFICATION SSpec
CONSTANTS LMax = 5
 VMax = 3
INVARIANT Lemmas
CHECK_DEADLOCK FALSE
