---------------------------- MODULE Rounding ----------------------------
(***************************************************************************)
(* Exact model of TT rounding on the "distinct last index" family.          *)
(*                                                                         *)
(* A member is a tensor whose non-zero entries (i^t, a_t) have pairwise     *)
(* distinct LAST indices.  For every bond k the rows of the k-th unfolding  *)
(* (grouped by the prefix i_1..i_k) have disjoint supports, so its squared  *)
(* singular values are exactly the group energies sum a_t^2 over entries     *)
(* sharing the prefix; a truncated SVD zeroes whole groups, the result      *)
(* stays in the family and errors add exactly.  Energies are integers.     *)
(*                                                                         *)
(* dir = "rtl": teneva.truncate  (bonds D-1 .. 1, budget relative to N:     *)
(*              per-unfolding budget T + 1/2, i.e. e^2 = (2T+1)(D-1)/(2N)) *)
(* dir = "ltr": teneva.svd / matrix_skeleton / matrix_svd (bonds 1 .. D-1, *)
(*              absolute per-unfolding budget e^2 = T + 1/2; D = 2 is the   *)
(*              matrix factorisation)                                       *)
(* dir = "rel": matrix_skeleton(rel=True), D = 2: budget (T + 1/2)/R2 times *)
(*              the largest group energy, R2 fixed = 8                      *)
(* One Step per bond, as in the code; ties at a cut are nondeterministic.   *)
(***************************************************************************)
EXTENDS Integers, Sequences, FiniteSets, TLC, Json, FiniteSetsExt, SequencesExt, Spectrum

CONSTANTS D,        \* number of modes (>= 2)
          NPre,     \* mode size of the modes 1..D-1
          NE,       \* max number of entries (= size of the last mode)
          EnSet,    \* admissible entry energies (0 admits exactly-zero entries; values >= 1000 stand for "tier 0" entries that are
                    \* 2^60 times larger than the unit: E = 1000 E0 + E1 orders exactly like the physical E0 + E1 / 2^60 as long as
                    \* sums of unit-tier energies and budgets stay below 1000)
          TMax,     \* largest integer budget
          Dirs,     \* subset of {"rtl", "ltr", "rel"}
          Caps,     \* set of caps (99 = no cap)
          Canon     \* TRUE: entries listed in non-decreasing code order (symmetry: permuting the last index)
RelDen == 8

VARIABLES ent,      \* sequence of [pre |-> prefix tuple, en |-> energy]; entry t has last index t-1
          T, cap, dir,
          live,     \* surviving entries
          k,        \* next bond to process (0 / D = done)
          ranks, dropped, tie, capHit
vars == <<ent, T, cap, dir, live, k, ranks, dropped, tie, capHit>>

SumF(f, S) == FoldSet(LAMBDA x, acc : acc + f[x], 0, S)
Total(e) == FoldSet(LAMBDA t, acc : acc + e[t].en, 0, DOMAIN e)
N == Total(ent)

Prefix(t, kk) == SubSeq(ent[t].pre, 1, kk)
GroupsOf(S, kk) == { Prefix(t, kk) : t \in S }
GEnOf(S, kk) == [g \in GroupsOf(S, kk) |->
                   FoldSet(LAMBDA t, acc : acc + (IF Prefix(t, kk) = g THEN ent[t].en ELSE 0), 0, S)]

(* sorted (non-increasing) spectrum of a group-energy function *)
SpecOf(en) == LET gs == SetToSeq(DOMAIN en)
              IN SortSeq([j \in 1..Len(gs) |-> en[gs[j]]], LAMBDA a, b : a > b)

(* a set X of groups is "a set of |X| smallest" *)
IsTail(X, en) == \A x \in X, y \in (DOMAIN en) \ X : en[x] <= en[y]

(* integer budget of this step in the units of the spectrum *)
\* rel: tail <= ((T+1/2)/RelDen) * E1  <=>  2*RelDen*tail <= (2T+1)*E1 ; scale both sides
BudgetOK(tail, en) == IF dir = "rel" THEN 2 * RelDen * tail <= (2*T + 1) * SpecOf(en)[1]
                      ELSE tail <= T
NeededRankOf(en) ==
  LET s2 == SpecOf(en)
      t  == CHOOSE t \in 0..Len(s2) : /\ BudgetOK(TailSum(s2, t), en)
                                      /\ \A u \in (t+1)..Len(s2) : ~BudgetOK(TailSum(s2, u), en)
  IN Len(s2) - t
RankSelOf(en) == Max2(1, Min2s(cap, NeededRankOf(en)))

PreTuples == [1..(D-1) -> 0..(NPre-1)]
RECURSIVE PreCode(_, _)
PreCode(p, j) == IF j > Len(p) THEN 0 ELSE p[j] + NPre * PreCode(p, j + 1)
Code(e) == e.en + 10000 * PreCode(e.pre, 1)
Init ==
  /\ \E ne \in 1..NE : ent \in [1..ne -> [pre : PreTuples, en : EnSet]]
  /\ (Canon => \A t \in 1..(Len(ent)-1) : Code(ent[t]) <= Code(ent[t+1]))
  /\ dir \in Dirs
  /\ T \in 0..TMax
  /\ (dir = "rel" => (D = 2 /\ T < 2 * RelDen))
  /\ (dir # "rel" => T <= Total(ent))
  /\ cap \in Caps
  /\ live = DOMAIN ent
  /\ k = IF dir = "rtl" THEN D - 1 ELSE 1
  /\ ranks = [b \in 1..(D-1) |-> 0]
  /\ dropped = 0 /\ tie = FALSE /\ capHit = FALSE

Done == k = 0 \/ k = D

Step ==
  /\ ~Done
  /\ LET en == GEnOf(live, k)
         G  == Cardinality(DOMAIN en)
         q  == RankSelOf(en)
         cands == { X \in SUBSET (DOMAIN en) : Cardinality(X) = G - q /\ IsTail(X, en) }
     IN \E X \in cands :
        /\ ranks' = [ranks EXCEPT ![k] = q]
        /\ tie' = (tie \/ Cardinality(cands) > 1)
        /\ capHit' = (capHit \/ NeededRankOf(en) > cap)
        /\ dropped' = dropped + SumF(en, X)
        /\ live' = { t \in live : Prefix(t, k) \notin X }
  /\ k' = IF dir = "rtl" THEN k - 1 ELSE k + 1
  /\ UNCHANGED <<ent, T, cap, dir>>
Next == Step
Spec == Init /\ [][Next]_vars

(* ----------------------- the properties on the model --------------------- *)
InEn(b)   == GEnOf(DOMAIN ent, b)                 \* input spectrum of unfolding b
InRank(b) == Cardinality(DOMAIN InEn(b))
\* C02: err^2 <= e^2 N  <=>  dropped <= (D-1)(T + 1/2);   C03: err^2 <= (D-1) e^2, same inequality
ErrBound   == (Done /\ ~capHit /\ dir # "rel") => 2 * dropped <= (D-1) * (2*T + 1)
RankCap    == Done => \A b \in 1..(D-1) : ranks[b] >= 1 /\ ranks[b] <= Max2(1, cap)
RankNoGrow == Done => \A b \in 1..(D-1) : ranks[b] <= InRank(b)
\* no rank exceeds the smallest rank that meets the per-unfolding budget on the INPUT spectrum
MinRankIn(b) == LET s2 == SpecOf(InEn(b))
                IN IF dir = "rel" THEN NeededRankOf(InEn(b)) ELSE Max2(1, NeededRank(s2, T))
RankQuasiOpt == Done => \A b \in 1..(D-1) : ranks[b] <= Max2(1, MinRankIn(b))
\* err^2 <= sum over unfoldings of the best possible error at the returned rank
ErrVsBest == Done => dropped <= FoldSet(LAMBDA b, acc : acc + BestErr(SpecOf(InEn(b)), ranks[b]), 0, 1..(D-1))
\* exact low rank is kept: budget 0 drops nothing
PosRank(b) == Cardinality({ g \in DOMAIN InEn(b) : InEn(b)[g] > 0 })          \* the true rank of unfolding b
ExactKept == (Done /\ T = 0 /\ dir # "rel" /\ ~capHit) => (dropped = 0 /\ \A b \in 1..(D-1) : ranks[b] = Max2(1, PosRank(b)))
\* the surviving tensor keeps the family and the shape
LiveOK == live \subseteq DOMAIN ent

Emit == Done => PrintT(ToJson([ent |-> ent, T |-> T, cap |-> cap, dir |-> dir, ranks |-> ranks,
                               dropped |-> dropped, live |-> live, tie |-> tie, capHit |-> capHit,
                               N |-> N, d |-> D, npre |-> NPre,
                               minrank |-> [b \in 1..(D-1) |-> Max2(1, MinRankIn(b))]]))
E12 == {1, 2}
E123 == {1, 2, 3}
E01 == {0, 1}
ETier == {1, 2, 1000, 2000}
=============================================================================
