---------------------------- MODULE Sampler ----------------------------
(***************************************************************************)
(* C14: samplers draw from exactly the distribution their TT-tensor defines. *)
(* For an integer TT-tensor Y and weight f (f(y) = y for non-negative Y,      *)
(* f(y) = y^2 for the squared sampler) let                                    *)
(*      S(prefix) = sum of f(Y[prefix, suffix]) over all suffixes.            *)
(* The conditional distribution of mode k given the prefix is                 *)
(*      cond(i | prefix) = S(prefix . i) / S(prefix),                         *)
(* and the chain multiplies to f(Y[idx]) / S(<<>>) for every multi-index.    *)
(* Also: Latin hypercube counts, bounds, distinct rows, block layout of the  *)
(* structured sample set used by the incomplete SVD.                         *)
(***************************************************************************)
EXTENDS TT, TLC

Wt(y, sq) == IF sq THEN y * y ELSE y
IsPrefix1(pre, idx) == \A k \in 1..Len(pre) : idx[k] = pre[k]
\* prefix and multi-indices 1-based here
S(Yd, n, pre, sq) == LET F(p) == IF IsPrefix1(pre, MultiIdx(p, n)) THEN Wt(Yd[p], sq) ELSE 0 IN SumTo(F, Size(n))

\* chain identity, for every multi-index (checked by TLC on every enumerated tensor)
RECURSIVE ChainNum(_, _, _, _, _), ChainDen(_, _, _, _, _)
ChainNum(Yd, n, idx, k, sq) == IF k = 0 THEN 1 ELSE S(Yd, n, SubSeq(idx, 1, k), sq) * ChainNum(Yd, n, idx, k - 1, sq)
ChainDen(Yd, n, idx, k, sq) == IF k = 0 THEN 1 ELSE S(Yd, n, SubSeq(idx, 1, k - 1), sq) * ChainDen(Yd, n, idx, k - 1, sq)
ChainOK(Yd, n, sq) ==
  \A p \in 1..Size(n) :
     LET idx == MultiIdx(p, n)
     IN (\A k \in 0..(Len(n)-1) : S(Yd, n, SubSeq(idx, 1, k), sq) > 0) =>
          ChainNum(Yd, n, idx, Len(n), sq) * S(Yd, n, <<>>, sq) = Wt(Yd[p], sq) * ChainDen(Yd, n, idx, Len(n), sq)

\* all prefixes (lengths 0..d) and the table of their sums (computed once per tensor)
MaxN(n) == CHOOSE x \in {n[k] : k \in 1..Len(n)} : \A k \in 1..Len(n) : n[k] <= x
PrefixesOf(n) == UNION { { pre \in [1..k -> 1..MaxN(n)] : \A j \in 1..k : pre[j] <= n[j] } : k \in 0..Len(n) }
PrefK(n, k) == { pre \in [1..k -> 1..MaxN(n)] : \A j \in 1..k : pre[j] <= n[j] }
RECURSIVE FlatIdx(_, _, _)
FlatIdx(idx, n, k) == IF k > Len(n) THEN 0 ELSE (idx[k] - 1) * Prod(n, k + 1) + FlatIdx(idx, n, k + 1)
\* level-by-level computation (each level is summed from the next one): linear in the tensor size
RECURSIVE Levels(_, _, _, _)
Levels(Yd, n, k, sq) ==
  IF k = Len(n) THEN << [pre \in PrefK(n, k) |-> Wt(Yd[FlatIdx(pre, n, 1) + 1], sq)] >>
  ELSE LET rest == Levels(Yd, n, k + 1, sq)
           nxt == rest[1]
       IN << [pre \in PrefK(n, k) |-> LET F(i) == nxt[Append(pre, i)] IN SumTo(F, n[k + 1])] >> \o rest
STable(Yd, n, sq) == LET L == Levels(Yd, n, 0, sq) IN [pre \in PrefixesOf(n) |-> L[Len(pre) + 1][pre]]
STableSlow(Yd, n, sq) == [pre \in PrefixesOf(n) |-> S(Yd, n, pre, sq)]
CondMatchesT(tab, n, pre, num, den) ==
  /\ Len(num) = n[Len(pre) + 1]
  /\ tab[pre] > 0
  /\ \A i \in 1..Len(num) : num[i] * tab[pre] = den[i] * tab[Append(pre, i)]

\* a recorded probability vector num[i]/den[i] equals the conditional of the next mode given pre
CondMatches(Yd, n, pre, num, den, sq) ==
  /\ Len(num) = n[Len(pre) + 1]
  /\ S(Yd, n, pre, sq) > 0
  /\ \A i \in 1..Len(num) : num[i] * S(Yd, n, pre, sq) = den[i] * S(Yd, n, Append(pre, i), sq)

\* Latin hypercube: every index of a mode is used floor(m/n) or ceil(m/n) times
Count(col, v) == Cardinality({ s \in 1..Len(col) : col[s] = v })
LhsOK(col, nk) == LET m == Len(col) IN
   \A v \in 0..(nk-1) : Count(col, v) \in { m \div nk, (m + nk - 1) \div nk }
InBounds0(row, n) == Len(row) = Len(n) /\ \A k \in 1..Len(n) : row[k] \in 0..(n[k]-1)
Distinct(rows) == Cardinality({ rows[s] : s \in 1..Len(rows) }) = Len(rows)

\* block layout of sample_tt for mode k (1-based), expected rank r: rows of the block, in order
\*   row(v, a, b) = v * l1 * l2 + a * l2 + b ;  value of mode k is v; prefix depends on a only; suffix on b only
BlockOK(rows, n, k, l1, l2) ==
  /\ Len(rows) = n[k] * l1 * l2
  /\ \A q \in 1..Len(rows) :
       LET v == (q - 1) \div (l1 * l2)
           a == ((q - 1) \div l2) % l1
           b == (q - 1) % l2
           q0 == a * l2 + b + 1          \* same (a, b) in the block of value 0
           qa == a * l2 + 1              \* same a, b = 0
           qb == b + 1                   \* a = 0, same b
       IN /\ rows[q][k] = v
          /\ InBounds0(rows[q], n)
          /\ SubSeq(rows[q], 1, k - 1) = SubSeq(rows[qa], 1, k - 1)
          /\ SubSeq(rows[q], k + 1, Len(n)) = SubSeq(rows[qb], k + 1, Len(n))
=============================================================================
