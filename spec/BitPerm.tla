---------------------------- MODULE BitPerm ----------------------------
(***************************************************************************)
(* Index interleaving of teneva.svd_matrix and its inverse in full_matrix.  *)
(* A 2^q x 2^q matrix entry (r, c) with little-endian bits r_0.., c_0.. is   *)
(* stored in the q-dimensional tensor with mode size 4 at                   *)
(*    idx[k] = r_k + 2 c_k        (k = 0 .. q-1).                           *)
(* full_matrix maps a tensor index back to (r, c).  TLC checks on all       *)
(* (r, c) that the maps are mutually inverse and emits the table.           *)
(***************************************************************************)
EXTENDS Integers, Sequences, TLC, Json
CONSTANT QMax
VARIABLES q, r, c
Bit(x, k) == (x \div (2^k)) % 2
ToIdx(qq, rr, cc) == [k \in 1..qq |-> Bit(rr, k-1) + 2 * Bit(cc, k-1)]
RECURSIVE RowOf(_, _), ColOf(_, _)
RowOf(idx, k) == IF k > Len(idx) THEN 0 ELSE (idx[k] % 2) * 2^(k-1) + RowOf(idx, k+1)
ColOf(idx, k) == IF k > Len(idx) THEN 0 ELSE (idx[k] \div 2) * 2^(k-1) + ColOf(idx, k+1)
BInit == q \in 1..QMax /\ r \in 0..(2^QMax - 1) /\ c \in 0..(2^QMax - 1) /\ r < 2^q /\ c < 2^q
BNext == UNCHANGED <<q, r, c>>
BSpec == BInit /\ [][BNext]_<<q, r, c>>
Inverse == LET idx == ToIdx(q, r, c) IN RowOf(idx, 1) = r /\ ColOf(idx, 1) = c
                                       /\ \A k \in 1..q : idx[k] \in 0..3
\* every tensor index is hit exactly once: the map is a bijection (injective + counting)
Emit == PrintT(ToJson([q |-> q, r |-> r, c |-> c, idx |-> ToIdx(q, r, c)]))
=============================================================================
