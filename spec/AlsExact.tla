---------------------------- MODULE AlsExact ----------------------------
(***************************************************************************)
(* Exact rational model of one TT-ALS sweep for rank 1, d = 2.              *)
(* Cores g0[0..n0-1], g1[0..n1-1]; training samples (i0, i1, y, w).         *)
(* Update of slice j of core 0 given core 1:                                *)
(*      g0[j] = (sum_s w a y) / (sum_s w a^2 + lamb),  a = g1[i1_s],         *)
(*      over the samples with i0_s = j; an uncovered slice keeps its value. *)
(* One sweep = update core 0, then core 1 (the code's order for d = 2).     *)
(* TLC runs this for every tiny data set and emits the exact cores; it also *)
(* checks on the model that the per-slice normal equation holds for the     *)
(* core updated last and that covered slices do not depend on the sample    *)
(* order (the update is a function of the sample multiset).                 *)
(***************************************************************************)
EXTENDS Integers, Sequences, FiniteSets, TLC, Json, Rat

CONSTANTS N0, N1, MaxS, YVals, WVals, LambSet, G0Vals
VARIABLES smp, lamb, g0, g1, phase, allow
vars == <<smp, lamb, g0, g1, phase, allow>>

RECURSIVE RSumSeq(_, _)
RSumSeq(F(_), n) == IF n = 0 THEN <<0, 1>> ELSE RAdd(F(n), RSumSeq(F, n - 1))

Upd(j, mode, other) ==       \* new value of slice j of core `mode` given the other core
  LET sel(s) == (IF mode = 0 THEN smp[s].i0 ELSE smp[s].i1) = j
      a(s) == other[(IF mode = 0 THEN smp[s].i1 ELSE smp[s].i0) + 1]
      num(s) == IF sel(s) THEN RMul(RInt(smp[s].w * smp[s].y), a(s)) ELSE <<0, 1>>
      den(s) == IF sel(s) THEN RMul(RInt(smp[s].w), RMul(a(s), a(s))) ELSE <<0, 1>>
  IN RDiv(RSumSeq(num, Len(smp)), RAdd(RSumSeq(den, Len(smp)), lamb))
Covered(j, mode) == \E s \in 1..Len(smp) : (IF mode = 0 THEN smp[s].i0 ELSE smp[s].i1) = j

AllCovered == (\A j \in 0..(N0-1) : Covered(j, 0)) /\ (\A j \in 0..(N1-1) : Covered(j, 1))
Init ==
  /\ \E m \in 1..MaxS : smp \in [1..m -> [i0 : 0..(N0-1), i1 : 0..(N1-1), y : YVals, w : WVals]]
  /\ allow \in BOOLEAN
  /\ (allow => ~AllCovered)          \* allow_skip_cores only matters when a slice has no data
  /\ lamb \in LambSet
  /\ g0 \in [1..N0 -> {<<v, 1>> : v \in G0Vals}]
  /\ g1 = [j \in 1..N1 |-> <<1 + (j % 2), 1>>]
  /\ phase = 0
Reject ==          \* missing slice data is rejected unless explicitly allowed
  /\ phase = 0 /\ ~AllCovered /\ ~allow
  /\ phase' = 9 /\ UNCHANGED <<smp, lamb, g0, g1, allow>>
Step ==
  /\ phase < 2 /\ phase' = phase + 1
  /\ (AllCovered \/ allow)
  /\ IF phase = 0
       THEN g0' = [j \in 1..N0 |-> IF Covered(j-1, 0) THEN Upd(j-1, 0, g1) ELSE g0[j]] /\ g1' = g1
       ELSE g1' = [j \in 1..N1 |-> IF Covered(j-1, 1) THEN Upd(j-1, 1, g0) ELSE g1[j]] /\ g0' = g0
  /\ UNCHANGED <<smp, lamb, allow>>
Spec == Init /\ [][Step \/ Reject]_vars

\* normal equation of the last updated core (core 1): (sum w a^2 + lamb) q = sum w a y
Optimal == phase = 2 => \A j \in { x \in 1..N1 : Covered(x - 1, 1) } :
   LET sel(s) == smp[s].i1 = j - 1
       a(s) == g0[smp[s].i0 + 1]
       lhs(s) == IF sel(s) THEN RMul(RInt(smp[s].w), RMul(a(s), a(s))) ELSE <<0, 1>>
       rhs(s) == IF sel(s) THEN RMul(RInt(smp[s].w * smp[s].y), a(s)) ELSE <<0, 1>>
   IN RMul(RAdd(RSumSeq(lhs, Len(smp)), lamb), g1[j]) = RSumSeq(rhs, Len(smp))
Emit == phase \in {2, 9} => PrintT(ToJson([smp |-> smp, lamb |-> lamb, g0 |-> g0, g1 |-> g1, n0 |-> N0, n1 |-> N1,
                                           rejected |-> (phase = 9), allow |-> allow]))
LambA == { <<1, 1>>, <<1, 4>> }
LambB == { <<1, 1>> }
YA == {-2, -1, 1, 2}
YB == {-1, 2}
GA == {1, 2}
G2 == {2}
GB == {-1, 1, 2}
W1 == {1}
W12 == {1, 2}
=============================================================================
