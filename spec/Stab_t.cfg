SPECIFICATION Spec
CONSTANTS
  Patterns <- PatA
  Counts <- CntQ
  Shifts <- ShA
  MaxBlocks = 2
INVARIANT NormalForm
INVARIANT ShiftLemma
INVARIANT Emit
CHECK_DEADLOCK FALSE
