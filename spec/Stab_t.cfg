SPECIFICATION Spec
CONSTANTS
  Patterns <- PatA
  Counts <- CntQ
  Shifts <- ShA
  MaxBlocks = 3
INVARIANT NormalForm
INVARIANT ShiftLemma
INVARIANT Emit
CHECK_DEADLOCK FALSE
