SPECIFICATION Spec
CONSTANTS
  MaxLen = 4
  Funcs = {"f"}
  Variants = {1, 2}
  Seeds = {1, 2}
  Faulty = FALSE
INVARIANT HistoryIndependent
INVARIANT Emit
PROPERTY GlobalUntouched
CHECK_DEADLOCK FALSE
