SPECIFICATION Spec
CONSTANTS D = 3
          NPre = 3
          NE = 4
          EnSet <- E123
          TMax = 12
          Dirs = {"ltr"}
          Caps = {1, 2, 3, 99}
          Canon = TRUE
INVARIANT ErrBound
INVARIANT RankCap
INVARIANT RankNoGrow
INVARIANT RankQuasiOpt
INVARIANT ErrVsBest
INVARIANT ExactKept
INVARIANT LiveOK
INVARIANT Emit
CHECK_DEADLOCK FALSE
