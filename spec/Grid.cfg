SPECIFICATION Spec
CONSTANTS
  NSet <- NQ
  EighthsOut <- Out
  FlatShapes <- FS
  CdfSamples <- CS
  CdfQueries <- CQ
INVARIANT NodeFixed
INVARIANT FlatBijective
INVARIANT Emit
CHECK_DEADLOCK FALSE
