SPECIFICATION Spec
CONSTANTS
  Shapes <- ShT
  RankVals <- RV
  MaxLen = 3
INVARIANT RanksCarried
INVARIANT Boundary
INVARIANT Emit
PROPERTY NoRankGrows
PROPERTY Frame
CHECK_DEADLOCK FALSE
