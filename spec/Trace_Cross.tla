---------------------------- MODULE Trace_Cross ----------------------------
(* Trace validation for teneva.cross: every recorded execution must be a    *)
(* behaviour of Cross.  TRACE_FILE holds a JSON array of traces             *)
(* [cfg |-> ..., ev |-> <<event, ...>>]; one TLC run validates all of them  *)
(* (tid is chosen in Init).  Events (one per specification action that the  *)
(* recorder can see through the func= / objective / _iter / cb seams):      *)
(*   req{n,Ir,Ic,m,mc,stop}  fcall{I,none}  reqdone{ok,m,mc,stop}           *)
(*   iter{ltr,Inew}                                                        *)
(*   cb{nswp,m,mc,ranks,ret,ehit,vhit}                                      *)
(*   ret{stop,m,mc,nswp,ranks,shape,finite,ncache,e_ok,evld_ok,r_ok,acc_ok} *)
EXTENDS Cross, TLCExt, Json, IOUtils, SequencesExt

Traces == JsonDeserialize(IOEnv.TRACE_FILE)

VARIABLES tid, l
tvars == <<vars, tid, l>>

T  == Traces[tid]
Ev == T.ev
E  == Ev[l]
IsEv(name) == l <= Len(Ev) /\ E.ev = name
Adv  == l' = l + 1 /\ tid' = tid
Stay == UNCHANGED <<tid, l>>

TInit == /\ tid \in 1..Len(Traces)
         /\ l = 1
         /\ InitWith(Traces[tid].cfg)

TPreL == IsEv("iter") /\ E.ltr = TRUE /\ PreL(E.Inew) /\ Adv
TPreR == IsEv("iter") /\ E.ltr = FALSE /\ PreR(E.Inew) /\ Adv
\* the outcome of the pre-iteration stop test is visible in the first request
TPreRFold == /\ pc = "preRfold" /\ Stay
             /\ \E v \in BOOLEAN : PreRFold(v)

TRequest == /\ IsEv("req") /\ Request /\ Adv
            /\ E.n = Nk(i)
            /\ E.Ir = Ir[i] /\ E.Ic = Ic[i+1]
            /\ E.m = m /\ E.mc = mc
            /\ (E.stop # "m" /\ E.stop # "func" => E.stop = stop)

TFCall == /\ IsEv("fcall") /\ EvalCall(E.none) /\ Adv
          /\ E.I = NewIdx                          \* exactly the new indices, in order
          /\ \A p \in 1..Len(E.I) : InBounds(E.I[p])
TNoCall == /\ ~IsEv("fcall") /\ EvalSilent /\ Stay

TReqDone == /\ IsEv("reqdone") /\ Decide /\ Adv
            /\ E.m = m /\ E.mc = mc /\ E.stop = stop
            /\ E.ok = ~(stop \in {"m", "func"})

TMainIterL == IsEv("iter") /\ E.ltr = TRUE /\ MainIterL(E.Inew) /\ Adv
TMainIterR == IsEv("iter") /\ E.ltr = FALSE /\ MainIterR(E.Inew) /\ Adv

TCb == /\ IsEv("cb") /\ SweepEnd(E.ret, E.ehit, E.vhit) /\ Adv
       /\ E.nswp = nsw /\ E.m = m /\ E.mc = mc
       /\ E.ranks = Ranks
       /\ ChainOK

TReturn == /\ IsEv("ret") /\ Return /\ Adv
           /\ E.stop = stop /\ E.m = m /\ E.mc = mc /\ E.nswp = nsw
           /\ ChainOK /\ E.ranks = Ranks
           /\ E.shape = cfg.n /\ E.finite
           /\ (cfg.cache => E.ncache = Cardinality(cache) /\ E.cache_ok)
           /\ (cfg.mmax >= 0 => m <= cfg.mmax)
           /\ E.e_ok /\ E.evld_ok /\ E.r_ok /\ E.conv_ok
           /\ (exact => E.acc_ok)                         \* C05: reproduces the target

TNext == \/ TPreL \/ (PreLFold /\ Stay) \/ TPreR \/ TPreRFold
         \/ TRequest \/ TFCall \/ TNoCall \/ TReqDone
         \/ TMainIterL \/ (LtrFold /\ Stay) \/ TMainIterR \/ (RtlFold /\ Stay)
         \/ TCb \/ (RetFoldL /\ Stay) \/ (RetFoldR /\ Stay) \/ TReturn

TSpec == TInit /\ [][TNext]_tvars

\* the specification's invariants are evaluated at every step of every trace
Accepted == (pc = "done" /\ l = Len(Ev) + 1) => PrintT(<<"ACCEPTED", tid>>)
\* position reached (diagnosis run on rejected traces only)
Progress == PrintT(<<"AT", tid, l, pc>>)
=============================================================================
