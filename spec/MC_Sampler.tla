---------------------------- MODULE MC_Sampler ----------------------------
(* chain identity on every tensor with entries in Vals of the given profiles.  *)
(* The first core is chosen in Init and the rest in a step (so that the work   *)
(* is spread over TLC's workers); the denotation is kept in a variable so that *)
(* it is computed once per tensor.                                             *)
EXTENDS Sampler
CONSTANTS Vals, Profiles
VARIABLES prof, y, yd
CoreSet(r1, nn, r2) == { [r1 |-> r1, n |-> nn, r2 |-> r2, v |-> vv] : vv \in [1..r1 -> [1..nn -> [1..r2 -> Vals]]] }
MInit == /\ prof \in Profiles
         /\ \E c1 \in CoreSet(1, prof.n[1], prof.r) : y = <<c1>>
         /\ yd = <<>>
MNext == /\ Len(y) = 1
         /\ IF Len(prof.n) = 2
              THEN \E c2 \in CoreSet(prof.r, prof.n[2], 1) : y' = y \o <<c2>>
              ELSE \E c2 \in CoreSet(prof.r, prof.n[2], prof.r), c3 \in CoreSet(prof.r, prof.n[3], 1) : y' = y \o <<c2, c3>>
         /\ yd' = Denote(y')
         /\ UNCHANGED prof
MSpec == MInit /\ [][MNext]_<<prof, y, yd>>
Complete == Len(y) > 1
NonNeg == \A p \in 1..Len(yd) : yd[p] >= 0
ChainLin == (Complete /\ NonNeg) => ChainOK(yd, prof.n, FALSE)
ChainSq == Complete => ChainOK(yd, prof.n, TRUE)
\* the fast table equals the defining sums
TableOK == Complete => STable(yd, prof.n, TRUE) = STableSlow(yd, prof.n, TRUE) /\ STable(yd, prof.n, FALSE) = STableSlow(yd, prof.n, FALSE)
ValsA == {-1, 0, 1, 2}
ValsB == {0, 1}
ProfA == { [n |-> <<2, 2>>, r |-> 2], [n |-> <<3, 2>>, r |-> 1] }
ProfB == { [n |-> <<2, 2, 2>>, r |-> 2] }
=============================================================================
