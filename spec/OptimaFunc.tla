---------------------------- MODULE OptimaFunc ----------------------------
(* C15, functional variant, rank-1 coefficient tensors: per mode the interpolant is    *)
(*     p(x) = c0 T0 + c1 T1 + c2 T2 = c0 + c1 x + c2 (2 x^2 - 1)   on [-1, 1]          *)
(* and max |f| over the cube is the product of the per-mode maxima of |p|, which are   *)
(* attained at x = -1, x = 1 or at the vertex x = -c1 / (4 c2) (rational).             *)
EXTENDS Integers, Sequences, TLC, Json, Rat
CONSTANTS Coefs1, Coefs2
VARIABLE c
RAbsQ(a) == IF a[1] < 0 THEN <<-a[1], a[2]>> ELSE a
RMax(a, b) == IF RLeq(a, b) THEN b ELSE a
MaxAbsPoly(q) ==
  LET v1 == RAbsQ(RInt(q[1] - q[2] + q[3]))
      v2 == RAbsQ(RInt(q[1] + q[2] + q[3]))
      hasV == q[3] # 0 /\ (IF q[2] < 0 THEN -q[2] ELSE q[2]) <= 4 * (IF q[3] < 0 THEN -q[3] ELSE q[3])
      vv == IF hasV THEN RAbsQ(RSub(RInt(q[1] - q[3]), RNorm(q[2] * q[2], 8 * q[3]))) ELSE <<0, 1>>
  IN RMax(RMax(v1, v2), vv)
Init == c \in { <<a, b>> : a \in Coefs1, b \in Coefs2 }
Next == UNCHANGED c
Spec == Init /\ [][Next]_c
Emit == PrintT(ToJson([p1 |-> c[1], p2 |-> c[2], m1 |-> MaxAbsPoly(c[1]), m2 |-> MaxAbsPoly(c[2])]))
CA == { <<a, b, cc>> : a \in -2..2, b \in -2..2, cc \in -2..2 }
CB == { <<1, 0, 0>>, <<0, 1, 0>>, <<1, -2, 1>>, <<0, 1, -2>>, <<-1, 1, 2>>, <<2, 0, -1>>, <<0, 0, 1>>, <<-2, 2, 1>> }
=============================================================================
