SPECIFICATION Spec
CONSTANTS
  ShapesC <- ShapesT
  QMax = 4
  ZMax = 2
INVARIANT ConstOK
INVARIANT BitsOK
INVARIANT Emit
CHECK_DEADLOCK FALSE
