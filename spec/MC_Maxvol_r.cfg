SPECIFICATION MCSpec
CONSTANTS
  Sizes <- S42
  Ent <- EntS
  KLim <- K100
  DrSet <- Dr012
  Emit = FALSE
INVARIANT ValidI
INVARIANT Dominant
INVARIANT IdentityRows
INVARIANT RectCount
INVARIANT RectSmall
PROPERTY VolumeGrows
CHECK_DEADLOCK FALSE
