SPECIFICATION Spec
CONSTANTS D = 2
          NPre = 4
          NE = 4
          EnSet <- E01
          TMax = 4
          Dirs = {"rtl", "ltr", "rel"}
          Caps = {1, 2, 3, 99}
          Canon = TRUE
INVARIANT ErrBound
INVARIANT RankCap
INVARIANT RankNoGrow
INVARIANT RankQuasiOpt
INVARIANT ErrVsBest
INVARIANT ExactKept
INVARIANT LiveOK
INVARIANT Emit
CHECK_DEADLOCK FALSE
