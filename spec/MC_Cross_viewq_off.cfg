SPECIFICATION MCSpec
CONSTANTS
  Shape <- Shape_23
  R0 <- R0_111
  Rho <- Rho_121
  DrMin = 1
  DrMax = 1
  NSwp = 2
  MBig = 0
  WithCache = FALSE
  Mcs = 1000000
  NoneMax = 0
  Pre <- Pre_none
  Emit = FALSE
INVARIANT DomainInv
INVARIANT BatchDistinct
INVARIANT BudgetInv
INVARIANT CountInv
INVARIANT FoldCompat
INVARIANT ReturnWF
INVARIANT SweepWF
INVARIANT StopInv
INVARIANT NestedInv
INVARIANT TypeOK
INVARIANT ScriptInv
VIEW ViewNoCache
CHECK_DEADLOCK FALSE
