SPECIFICATION Spec
CONSTANTS D = 2
          NPre = 5
          NE = 5
          EnSet <- E12
          TMax = 10
          Dirs = {"rtl"}
          Caps = {1, 2, 3, 4, 99}
          Canon = TRUE
INVARIANT ErrBound
INVARIANT RankCap
INVARIANT RankNoGrow
INVARIANT RankQuasiOpt
INVARIANT ErrVsBest
INVARIANT ExactKept
INVARIANT LiveOK
INVARIANT Emit
CHECK_DEADLOCK FALSE
