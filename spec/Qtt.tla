---------------------------- MODULE Qtt ----------------------------
(***************************************************************************)
(* C17: QTT index maps and the rank contract of the TT -> QTT conversion.    *)
(* A mode index i in 0..2^q-1 is written with little-endian bits             *)
(*      bit_j(i) = (i div 2^j) mod 2,  j = 0..q-1,                           *)
(* and a TT multi-index (i_1..i_d) maps to the concatenation of the bit       *)
(* strings of its components.  TLC checks, for every multi-index with q d    *)
(* bounded, that the two maps are mutually inverse (hence bijections, by      *)
(* counting) and emits the table.  Rank contract of tt_to_qtt(Y, e, r) for a  *)
(* core (r1, 2^q, r2): the bond after the j-th bit of the mode is at most     *)
(* min(max(1, r), r1 2^j, 2^(q-j) r2); the bonds between modes keep the       *)
(* original TT-ranks.                                                        *)
(***************************************************************************)
EXTENDS Integers, Sequences, FiniteSets, TLC, Json
CONSTANTS QD
VARIABLE c
RECURSIVE Pow2(_)
Pow2(k) == IF k = 0 THEN 1 ELSE 2 * Pow2(k - 1)
Bits(i, q) == [j \in 1..q |-> (i \div Pow2(j - 1)) % 2]
ToQtt(idx, q) == [p \in 1..(Len(idx) * q) |-> Bits(idx[((p - 1) \div q) + 1], q)[((p - 1) % q) + 1]]
RECURSIVE FromBits(_, _, _)
FromBits(b, lo, q) == IF q = 0 THEN 0 ELSE b[lo] + 2 * FromBits(b, lo + 1, q - 1)
FromQtt(bits, q) == [k \in 1..(Len(bits) \div q) |-> FromBits(bits, (k - 1) * q + 1, q)]
Min3(a, b, cc) == IF a <= b /\ a <= cc THEN a ELSE IF b <= cc THEN b ELSE cc
InnerBound(r1, q, r2, cap, j) == Min3(IF cap < 1 THEN 1 ELSE cap, r1 * Pow2(j), Pow2(q - j) * r2)

RankCases == { [d |-> 0, q |-> q, idx |-> <<r1, r2, cap>>] : q \in 1..4, r1 \in 1..4, r2 \in 1..4, cap \in {1, 2, 3, 100} }
Cases == RankCases \cup UNION { { [d |-> dq[1], q |-> dq[2], idx |-> idx] : idx \in [1..dq[1] -> 0..(Pow2(dq[2]) - 1)] } : dq \in QD }
Init == c \in Cases
Next == UNCHANGED c
Spec == Init /\ [][Next]_c
Inverse == c.d > 0 =>
           /\ FromQtt(ToQtt(c.idx, c.q), c.q) = c.idx
           /\ \A p \in 1..(c.d * c.q) : ToQtt(c.idx, c.q)[p] \in {0, 1}
\* every bit string is hit: the inverse direction on all bit strings of the smallest cases
Onto == (c.d > 0 /\ c.d * c.q <= 4) => \A b \in [1..(c.d * c.q) -> {0, 1}] : ToQtt(FromQtt(b, c.q), c.q) = b
Emit == PrintT(ToJson([d |-> c.d, q |-> c.q, idx |-> c.idx,
                       bits |-> IF c.d > 0 THEN ToQtt(c.idx, c.q) ELSE [j \in 1..(c.q - 1) |-> InnerBound(c.idx[1], c.q, c.idx[2], c.idx[3], j)]]))
QDQ == { <<1, 1>>, <<1, 3>>, <<2, 2>>, <<3, 1>>, <<2, 3>>, <<3, 2>> }
QDT == { <<1, 1>>, <<1, 3>>, <<2, 2>>, <<3, 1>>, <<2, 3>>, <<3, 2>>, <<4, 2>>, <<2, 4>>, <<3, 3>>, <<1, 8>>, <<4, 3>>, <<6, 2>> }
=============================================================================
