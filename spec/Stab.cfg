SPECIFICATION Spec
CONSTANTS
  Patterns <- PatQ
  Counts <- CntQ
  Shifts <- ShQ
  MaxBlocks = 2
INVARIANT NormalForm
INVARIANT ShiftLemma
INVARIANT Emit
CHECK_DEADLOCK FALSE
