SPECIFICATION ASpec
INVARIANT AEmit
CHECK_DEADLOCK FALSE
