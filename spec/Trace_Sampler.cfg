SPECIFICATION TSpec
INVARIANT Accepted
CHECK_DEADLOCK FALSE
