SPECIFICATION Spec
CONSTANTS
  Vals <- ValsS
  Profiles <- ProfQ
  Seeds <- SeedsQ
  KSet <- KQ
INVARIANT InBoundsInv
INVARIANT FullBeamExact
INVARIANT Rank1Exact
INVARIANT Emit
CHECK_DEADLOCK FALSE
