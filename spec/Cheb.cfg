SPECIFICATION Spec
CONSTANTS
  Profiles <- ProfQ
  Seeds = {1, 2, 3, 4, 5, 6, 7, 8, 9, 10, 11, 12}
  Points <- PtsA
  Boxes <- BoxesA
INVARIANT DiffLemma
INVARIANT Emit
CHECK_DEADLOCK FALSE
