SPECIFICATION Spec
CONSTANTS
  ShapesC <- ShapesQ
  QMax = 3
  ZMax = 2
INVARIANT ConstOK
INVARIANT BitsOK
INVARIANT Emit
CHECK_DEADLOCK FALSE
