---------------------------- MODULE AddMany ----------------------------
(***************************************************************************)
(* teneva.add_many on the "distinct last index" family (see Rounding).      *)
(*                                                                         *)
(* A call is a behaviour: the first term is copied, every further term is   *)
(* added (AddStep), after every Fr-th addition the running sum is rounded   *)
(* WITHOUT a rank cap (code: truncate(Y, e)), and the call ends with one    *)
(* rounding WITH the cap (truncate(Y, e, r)).  Terms are +/- delta tensors  *)
(* of the layout's entries, so the running sum stays in the family: entry j *)
(* has the integer coefficient coef[j] and the energy coef[j]^2 * en[j];    *)
(* a rounding zeroes whole prefix groups (it re-enters with later terms).   *)
(* e^2 = Ep[1] / Ep[2] is rational, every comparison is in integers.        *)
(***************************************************************************)
EXTENDS Integers, Sequences, FiniteSets, TLC, Json, FiniteSetsExt, SequencesExt

CONSTANTS D, NPre, NE, EnSet, LMin, LMax, FrSet, Caps, EpSet

VARIABLES ent,       \* layout: sequence of [pre, en]; entry j has last index j-1
          terms,     \* sequence of <<entry, sign>>, chosen term by term
          L,         \* number of terms of this call
          fr, cap, ep,
          i,         \* number of terms consumed
          coef,      \* running sum (entry -> Int)
          exact,     \* exact sum of the consumed terms
          pc,        \* "add" | "round" | "final" | "done"
          nrounds, sumN,   \* number of roundings so far, sum of the squared norms they saw
          ranks, tie, edge, capHit
vars == <<ent, terms, L, fr, cap, ep, i, coef, exact, pc, nrounds, sumN, ranks, tie, edge, capHit>>

J == DOMAIN ent
En(c, j) == c[j] * c[j] * ent[j].en
Norm2(c) == FoldSet(LAMBDA j, acc : acc + En(c, j), 0, J)
Prefix(j, k) == SubSeq(ent[j].pre, 1, k)
Live(c) == { j \in J : c[j] # 0 }
GroupsOf(S, k) == { Prefix(j, k) : j \in S }
GEn(c, S, k) == [g \in GroupsOf(S, k) |-> FoldSet(LAMBDA j, acc : acc + (IF Prefix(j, k) = g THEN En(c, j) ELSE 0), 0, S)]
SumOver(f, X) == FoldSet(LAMBDA x, acc : acc + f[x], 0, X)
IsTail(X, en) == \A x \in X, y \in (DOMAIN en) \ X : en[x] <= en[y]
\* tail energy allowed in one unfolding: tail <= e^2 N / (D-1)
Within(tail, N) == tail * (D - 1) * ep[2] <= ep[1] * N
OnEdge(tail, N) == tail * (D - 1) * ep[2] = ep[1] * N /\ tail > 0
Tails(en) == { X \in SUBSET (DOMAIN en) : IsTail(X, en) }
Max2(a, b) == IF a > b THEN a ELSE b
Min2(a, b) == IF a < b THEN a ELSE b

\* one rounding sweep (bonds D-1 .. 1) of the tensor with coefficients c; returns the record of the outcome
RECURSIVE Sweep(_, _, _, _, _)
Sweep(c, k, N, capv, acc) ==
  IF k = 0 THEN [c |-> c] @@ acc
  ELSE LET S  == Live(c)
           en == GEn(c, S, k)
           G  == Cardinality(DOMAIN en)
           ok == { X \in Tails(en) : Within(SumOver(en, X), N) }
           t  == IF ok = {} THEN 0 ELSE Max({ Cardinality(X) : X \in ok })
           need == G - t
           q  == Max2(1, Min2(capv, need))
           dropN == IF G - q > 0 THEN G - q ELSE 0
           cands == { X \in Tails(en) : Cardinality(X) = dropN }
           X  == CHOOSE X \in cands : TRUE
           c2 == [j \in J |-> IF j \in S /\ Prefix(j, k) \in X THEN 0 ELSE c[j]]
       IN Sweep(c2, k - 1, N, capv,
                [rk   |-> [acc.rk EXCEPT ![k] = Max2(1, Min2(q, Max2(G, 1)))],
                 tie  |-> acc.tie \/ Cardinality(cands) > 1,
                 edge |-> acc.edge \/ (\E Y \in Tails(en) : OnEdge(SumOver(en, Y), N)),
                 hit  |-> acc.hit \/ need > capv])
Round(c, capv) == Sweep(c, D - 1, Norm2(c), capv,
                        [rk |-> [b \in 1..(D-1) |-> 1], tie |-> FALSE, edge |-> FALSE, hit |-> FALSE])

PreTuples == [1..(D-1) -> 0..(NPre-1)]
RECURSIVE PreCode(_, _)
PreCode(p, j) == IF j > Len(p) THEN 0 ELSE p[j] + NPre * PreCode(p, j + 1)
Code(e) == e.en + 1000 * PreCode(e.pre, 1)

\* the layout and the parameters are chosen step by step (small Init: simulation and the worker pool both profit)
Init ==
  /\ ent = <<>> /\ terms = <<>> /\ L = 0 /\ fr = 1 /\ cap = 99 /\ ep = <<1, 1>>
  /\ i = 0 /\ coef = <<>> /\ exact = <<>>
  /\ pc = "build" /\ nrounds = 0 /\ sumN = 0
  /\ ranks = [b \in 1..(D-1) |-> 0] /\ tie = FALSE /\ edge = FALSE /\ capHit = FALSE
BuildStep ==
  /\ pc = "build" /\ Len(ent) < NE
  /\ \E e \in [pre : PreTuples, en : EnSet] :
       /\ (ent # <<>> => Code(ent[Len(ent)]) <= Code(e))
       /\ ent' = Append(ent, e)
  /\ UNCHANGED <<terms, L, fr, cap, ep, i, coef, exact, pc, nrounds, sumN, ranks, tie, edge, capHit>>
StartStep ==
  /\ pc = "build" /\ Len(ent) >= 2
  /\ L' \in LMin..LMax /\ fr' \in FrSet /\ cap' \in Caps /\ ep' \in EpSet
  /\ \E t \in (DOMAIN ent) \X {-1, 1} :
       /\ terms' = <<t>>
       /\ coef'  = [j \in DOMAIN ent |-> IF t[1] = j THEN t[2] ELSE 0]
       /\ exact' = [j \in DOMAIN ent |-> IF t[1] = j THEN t[2] ELSE 0]
  /\ i' = 1 /\ pc' = "add"
  /\ UNCHANGED <<ent, nrounds, sumN, ranks, tie, edge, capHit>>

AddStep ==
  /\ pc = "add" /\ i < L
  /\ \E t \in J \X {-1, 1} :
       /\ terms' = Append(terms, t)
       /\ coef'  = [coef  EXCEPT ![t[1]] = @ + t[2]]
       /\ exact' = [exact EXCEPT ![t[1]] = @ + t[2]]
  /\ i' = i + 1
  /\ pc' = IF i % fr = 0 THEN "round" ELSE "add"          \* i additions done after this step: (i+1)-th term, code index i-1, (i-1+1) % fr
  /\ UNCHANGED <<ent, L, fr, cap, ep, nrounds, sumN, ranks, tie, edge, capHit>>
RoundStep ==
  /\ pc = "round"
  /\ LET o == Round(coef, 99) IN
       /\ coef' = o.c /\ tie' = (tie \/ o.tie) /\ edge' = (edge \/ o.edge)
  /\ nrounds' = nrounds + 1 /\ sumN' = sumN + Norm2(coef)
  /\ pc' = "add"
  /\ UNCHANGED <<ent, terms, L, fr, cap, ep, i, exact, ranks, capHit>>
FinalStep ==
  /\ pc = "add" /\ i = L
  /\ LET o == Round(coef, cap) IN
       /\ coef' = o.c /\ tie' = (tie \/ o.tie) /\ edge' = (edge \/ o.edge) /\ ranks' = o.rk /\ capHit' = o.hit
  /\ nrounds' = nrounds + 1 /\ sumN' = sumN + Norm2(coef)
  /\ pc' = "done"
  /\ UNCHANGED <<ent, terms, L, fr, cap, ep, i, exact>>
Next == BuildStep \/ StartStep \/ AddStep \/ RoundStep \/ FinalStep
Spec == Init /\ [][Next]_vars

Err2 == FoldSet(LAMBDA j, acc : acc + (exact[j] - coef[j]) * (exact[j] - coef[j]) * ent[j].en, 0, J)
\* every rounding step is within e * ||current sum||, so the errors add up to at most sum_r e sqrt(N_r);
\* sqrt-free consequence (Cauchy-Schwarz): err^2 <= R * e^2 * sum_r N_r   (only the final step has a cap)
AccumulatedBound == (pc = "done" /\ ~capHit) => Err2 * ep[2] <= nrounds * ep[1] * sumN
\* intermediate roundings never see the cap: before the final step the error obeys the bound unconditionally
IntermediateBound == (pc \in {"add", "round"}) => Err2 * ep[2] <= nrounds * ep[1] * sumN
RankCap == pc = "done" => \A b \in 1..(D-1) : ranks[b] >= 1 /\ ranks[b] <= Max2(1, cap)
Emit == pc = "done" => PrintT(ToJson([ent |-> ent, terms |-> terms, fr |-> fr, cap |-> cap, ep |-> ep, coef |-> coef,
                                        exact |-> exact, ranks |-> ranks, tie |-> tie, edge |-> edge, capHit |-> capHit,
                                        err2 |-> Err2, nrounds |-> nrounds, sumN |-> sumN, d |-> D, npre |-> NPre]))
E124 == {1, 2, 4}
E12 == {1, 2}
Fr12 == {1, 2}
Fr23 == {2, 3}
Caps12 == {1, 2, 99}
Eps2 == {<<1, 8>>, <<2, 5>>}
Eps3 == {<<1, 8>>, <<2, 5>>, <<1, 50>>}
=============================================================================
