---------------------------- MODULE MC_Spectrum ----------------------------
EXTENDS Spectrum, TLC
CONSTANTS LMax, VMax
VARIABLES s2, T, cap
SInit == /\ \E n \in 1..LMax : s2 \in [1..n -> 0..VMax]
         /\ IsSpectrum(s2)
         /\ T \in 0..(LMax * VMax) /\ cap \in 1..(LMax + 1)
SNext == UNCHANGED <<s2, T, cap>>
SSpec == SInit /\ [][SNext]_<<s2, T, cap>>
Lemmas == /\ LemMinimal(s2, T) /\ LemWithin(s2, T, cap) /\ LemCap(s2, T, cap)
          /\ LemMono(s2, T) /\ LemZero(s2, T, cap)
=============================================================================
