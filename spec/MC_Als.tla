---------------------------- MODULE MC_Als ----------------------------
EXTENDS Als
CONSTANTS DSet, NSwpSet
VARIABLES cbAt, eAt, vAt
mvars == <<vars, cbAt, eAt, vAt>>
MInit == /\ \E d \in DSet, ns \in NSwpSet : InitWith([d |-> d, nswp |-> ns, hasE |-> TRUE, hasV |-> TRUE])
         /\ cbAt \in 0..3 /\ eAt \in 0..3 /\ vAt \in (-1)..3
         /\ (cfg.nswp >= 0 \/ cbAt > 0 \/ eAt > 0 \/ vAt >= 0)
KK == UNCHANGED <<cbAt, eAt, vAt>>
MNext == /\ KK
         /\ \/ InitRight(vAt = 0)
            \/ UpdateCore
            \/ UpdateInterface
            \/ SweepEnd(cbAt = nsw, eAt = nsw, vAt = nsw)
            \/ Return
MSpec == MInit /\ [][MNext]_mvars
MFair == MSpec /\ WF_mvars(MNext)
Terminates == <>(pc = "done")
D234 == {2, 3, 4, 5}
NS == {-1, 0, 1, 2, 3}
=============================================================================
