SPECIFICATION Spec
CONSTANTS
  MaxLen = 4
  Classes = {"pure"}
INVARIANT PureFresh
INVARIANT Emit
PROPERTY NoInterference
CHECK_DEADLOCK FALSE
