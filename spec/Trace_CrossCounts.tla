---------------------------- MODULE Trace_CrossCounts ----------------------------
(* Trace validation against the size abstraction of Cross (large executions, e.g.   *)
(* the repository's own tests).  Events: req{n,r1,r2,m,mc,stop}  fcall{new,none}     *)
(* reqdone{ok,m,mc,stop}  iter{ltr,q}  cb{nswp,m,mc,ranks,ret,ehit,vhit}              *)
(* ret{stop,m,mc,nswp,ranks,shape,finite,e_ok,evld_ok}                               *)
EXTENDS CrossCounts, TLCExt, Json, IOUtils
Traces == JsonDeserialize(IOEnv.TRACE_FILE)
VARIABLES tid, l
tvars == <<avars, tid, l>>
T == Traces[tid]
Ev == T.ev
E == Ev[l]
IsEv(name) == l <= Len(Ev) /\ E.ev = name
Adv == l' = l + 1 /\ tid' = tid
Stay == UNCHANGED <<tid, l>>
\* traces recorded without the _iter seam carry no iter events: the iteration steps are then silent, the new rank is
\* chosen by the specification and pinned down by the sizes of the next request
NoIter == "noiter" \in DOMAIN T /\ T.noiter
QCap == 256
TSilentIter == /\ NoIter /\ Stay
               /\ \E q \in 1..QCap : APreL(q) \/ APreR(q) \/ AMainIterL(q) \/ AMainIterR(q)
TInit == tid \in 1..Len(Traces) /\ l = 1 /\ AInitWith(Traces[tid].cfg)
TPreL == IsEv("iter") /\ E.ltr = TRUE /\ APreL(E.q) /\ Adv
TPreR == IsEv("iter") /\ E.ltr = FALSE /\ APreR(E.q) /\ Adv
TPreRFold == (\E v \in BOOLEAN : APreRFold(v)) /\ Stay
TRequest == /\ IsEv("req") /\ ARequest /\ Adv
            /\ E.n = Nk(i) /\ E.r1 = (IF i = 0 THEN 1 ELSE rl[i]) /\ E.r2 = (IF i = D-1 THEN 1 ELSE rc[i+1])
            /\ E.m = m /\ E.mc = mc
            /\ (E.stop # "m" /\ E.stop # "func" => E.stop = stop)
TFCall == IsEv("fcall") /\ AEvalCall(E.new, E.none) /\ Adv /\ E.wf
TNoCall == ~IsEv("fcall") /\ AEvalSilent /\ Stay
TReqDone == /\ IsEv("reqdone") /\ ADecide /\ Adv
            /\ E.m = m /\ E.mc = mc /\ E.stop = stop /\ E.ok = ~(stop \in {"m", "func"})
TMainIterL == IsEv("iter") /\ E.ltr = TRUE /\ AMainIterL(E.q) /\ Adv
TMainIterR == IsEv("iter") /\ E.ltr = FALSE /\ AMainIterR(E.q) /\ Adv
TCb == /\ IsEv("cb") /\ ASweepEnd(E.ret, E.ehit, E.vhit) /\ Adv
       /\ E.nswp = nsw /\ E.m = m /\ E.mc = mc /\ E.ranks = Ranks /\ ChainOK
TReturn == /\ IsEv("ret") /\ AReturn /\ Adv
           /\ E.stop = stop /\ E.m = m /\ E.mc = mc /\ E.nswp = nsw
           /\ ChainOK /\ E.ranks = Ranks /\ E.shape = cfg.n /\ E.finite
           /\ E.e_ok /\ E.evld_ok
TNext == TSilentIter \/ TPreL \/ (APreLFold /\ Stay) \/ TPreR \/ TPreRFold \/ TRequest \/ TFCall \/ TNoCall \/ TReqDone
         \/ TMainIterL \/ (ALtrFold /\ Stay) \/ TMainIterR \/ (ARtlFold /\ Stay) \/ TCb
         \/ (ARetFoldL /\ Stay) \/ (ARetFoldR /\ Stay) \/ TReturn
TSpec == TInit /\ [][TNext]_tvars
Accepted == (pc = "done" /\ l = Len(Ev) + 1) => PrintT(<<"ACCEPTED", tid>>)
Progress == PrintT(<<"AT", tid, l, pc>>)
=============================================================================
