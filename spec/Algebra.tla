---------------------------- MODULE Algebra ----------------------------
(***************************************************************************)
(* C01: every evaluation / algebra routine acts on the denoted tensor like  *)
(* the matching dense operation.                                            *)
(*                                                                         *)
(* Mode "case": one or two TT-tensors are chosen in Init (from the palette  *)
(* or - mode "all" - from ALL tensors with entries in Vals of one fixed     *)
(* shape / rank profile); TLC computes every observer exactly, checks the   *)
(* structured operators (block concatenation, Kronecker cores) against the  *)
(* dense ones, and emits the case for replay.                               *)
(* Mode "prog": a workspace of registers and a history; every step applies  *)
(* one public routine; the denotation after every step is emitted at the    *)
(* end of the behaviour (used with -simulate).                              *)
(***************************************************************************)
EXTENDS TT, TLC, Json

CONSTANTS Mode,        \* "all" | "pair" | "prog"
          Shapes,      \* set of shapes (sequences)
          RankSets,    \* set of rank values allowed per bond
          Seeds,       \* palette seeds
          Vals,        \* entry values for mode "all"
          AllShape, AllRanks,   \* fixed shape / rank profile for mode "all"
          Nums,        \* number operands
          K, MaxDepth  \* registers, program length

VARIABLES y1, y2, reg, hist, step
vars == <<y1, y2, reg, hist, step>>

(* palette tensor: entries are a small integer hash of (seed, position) *)
H(s, k, a, i, b) == ((s * 7 + k * 13 + a * 3 + i * 5 + b * 11 + (s * a * i) + (k * b)) % 5) - 2
PalCore(s, k, r1, n, r2) == [r1 |-> r1, n |-> n, r2 |-> r2,
                             v |-> [a \in 1..r1 |-> [i \in 1..n |-> [b \in 1..r2 |-> H(s, k, a, i, b)]]]]
RankProfiles(d) == { r \in [1..(d+1) -> RankSets \cup {1}] : r[1] = 1 /\ r[d+1] = 1 }
Pal(n, r, s) == [k \in 1..Len(n) |-> PalCore(s, k, r[k], n[k], r[k+1])]
Palette == { Pal(n, r, s) : n \in Shapes, r \in UNION { RankProfiles(d) : d \in { Len(m) : m \in Shapes } }, s \in Seeds }
PaletteOK == { Y \in Palette : Len(Ranks(Y)) = Len(Y) + 1 }
PalOf(n) == { Pal(n, r, s) : r \in RankProfiles(Len(n)), s \in Seeds }

AllTensors ==   \* every tensor of the fixed profile with entries in Vals
  LET d == Len(AllShape)
      CoreSet(k) == { [r1 |-> AllRanks[k], n |-> AllShape[k], r2 |-> AllRanks[k+1], v |-> vv] :
                      vv \in [1..AllRanks[k] -> [1..AllShape[k] -> [1..AllRanks[k+1] -> Vals]]] }
  IN IF d = 2 THEN { <<c1, c2>> : c1 \in CoreSet(1), c2 \in CoreSet(2) }
     ELSE { <<c1, c2, c3>> : c1 \in CoreSet(1), c2 \in CoreSet(2), c3 \in CoreSet(3) }

None == [kind |-> "none"]
TTv(Y) == [kind |-> "tt", n |-> Shape(Y), t |-> Denote(Y)]
Numv(c) == [kind |-> "num", c |-> c]

Init ==
  /\ step = 0 /\ hist = <<>>
  /\ reg = [k \in 1..K |-> None]
  /\ IF Mode = "all" THEN y1 \in AllTensors /\ y2 = <<>>
     ELSE IF Mode = "pair" THEN \E n \in Shapes : y1 \in PalOf(n) /\ y2 \in PalOf(n)
     ELSE y1 = <<>> /\ y2 = <<>>

(* ------------------------------ programs -------------------------------- *)
IsTT(x) == x.kind = "tt"
IsNum(x) == x.kind = "num"
Operand(x) == IF IsNum(x) THEN x.c ELSE 0
Bin(op, a, b) ==      \* a, b register values (tt or num), not both num-num mixes beyond python arithmetic
  IF IsNum(a) /\ IsNum(b) THEN Numv(IF op = "add" THEN a.c + b.c ELSE IF op = "sub" THEN a.c - b.c ELSE a.c * b.c)
  ELSE LET n  == IF IsTT(a) THEN a.n ELSE b.n
           ta == IF IsTT(a) THEN a.t ELSE DConst(Size(n), a.c)
           tb == IF IsTT(b) THEN b.t ELSE DConst(Size(n), b.c)
       IN [kind |-> "tt", n |-> n, t |-> IF op = "add" THEN DAdd(ta, tb) ELSE IF op = "sub" THEN DSub(ta, tb) ELSE DMul(ta, tb)]

Load(dst) == \E n \in Shapes : \E Y \in PalOf(n) :
   /\ reg' = [reg EXCEPT ![dst] = TTv(Y)]
   /\ hist' = Append(hist, [op |-> "load", dst |-> dst, cores |-> Y, exp |-> TTv(Y)])
LoadNum(dst) == \E c \in Nums :
   /\ reg' = [reg EXCEPT ![dst] = Numv(c)]
   /\ hist' = Append(hist, [op |-> "num", dst |-> dst, c |-> c, exp |-> Numv(c)])
Small(x) == IF IsTT(x) THEN \A p \in 1..Len(x.t) : x.t[p] \in -3000..3000 ELSE IF IsNum(x) THEN x.c \in -3000..3000 ELSE TRUE
BinOp(op, a, b, dst) ==
   /\ reg[a].kind # "none" /\ reg[b].kind # "none"
   /\ Small(reg[a]) /\ Small(reg[b])            \* products stay far from 2^31 (TLC) and 2^53 (floats)
   /\ (IsTT(reg[a]) /\ IsTT(reg[b]) => reg[a].n = reg[b].n)
   /\ LET r == Bin(op, reg[a], reg[b])
      IN /\ (IsTT(r) => \A p \in 1..Len(r.t) : r.t[p] \in -100000..100000)   \* stay far from 2^31 and 2^53
         /\ reg' = [reg EXCEPT ![dst] = r]
         /\ hist' = Append(hist, [op |-> op, a |-> a, b |-> b, dst |-> dst, exp |-> r])
OuterOp(a, b, dst) ==
   /\ IsTT(reg[a]) /\ IsTT(reg[b]) /\ Len(reg[a].n) + Len(reg[b].n) <= 4
   /\ Small(reg[a]) /\ Small(reg[b])
   /\ LET r == [kind |-> "tt", n |-> reg[a].n \o reg[b].n, t |-> DOuter(reg[a].t, reg[b].t)]
      IN /\ \A p \in 1..Len(r.t) : r.t[p] \in -100000..100000
         /\ reg' = [reg EXCEPT ![dst] = r]
         /\ hist' = Append(hist, [op |-> "outer", a |-> a, b |-> b, dst |-> dst, exp |-> r])
CopyOp(a, dst) ==
   /\ reg[a].kind # "none" /\ a # dst
   /\ reg' = [reg EXCEPT ![dst] = reg[a]]
   /\ hist' = Append(hist, [op |-> "copy", a |-> a, dst |-> dst, exp |-> reg[a]])

ProgNext ==
  /\ Mode = "prog" /\ step < MaxDepth
  /\ step' = step + 1
  /\ UNCHANGED <<y1, y2>>
  /\ \E dst \in 1..K :
       \/ Load(dst) \/ LoadNum(dst)
       \/ \E a, b \in 1..K : \E op \in {"add", "sub", "mul"} : BinOp(op, a, b, dst)
       \/ \E a, b \in 1..K : OuterOp(a, b, dst)
       \/ \E a \in 1..K : CopyOp(a, dst)
Next == ProgNext
Spec == Init /\ [][Next]_vars

(* ------------------- case mode: observers and lemmas --------------------- *)
D1 == Denote(y1)
D2 == Denote(y2)
N1 == Shape(y1)
StructuredOK ==   \* the mechanism (block concatenation / Kronecker cores) realises the dense operation
  Mode = "pair" =>
    /\ WellFormed(Add(y1, y2)) /\ Denote(Add(y1, y2)) = DAdd(D1, D2)
    /\ WellFormed(Mul(y1, y2)) /\ Denote(Mul(y1, y2)) = DMul(D1, D2)
    /\ Denote(Outer(y1, y2)) = DOuter(D1, D2)
    /\ Ranks(Add(y1, y2)) = [k \in 1..(Len(y1)+1) |-> IF k = 1 \/ k = Len(y1)+1 THEN 1 ELSE Ranks(y1)[k] + Ranks(y2)[k]]
    /\ Ranks(Mul(y1, y2)) = [k \in 1..(Len(y1)+1) |-> Ranks(y1)[k] * Ranks(y2)[k]]
DenoteOK == Mode \in {"all", "pair"} => WellFormed(y1) /\ Len(D1) = Size(N1)

(* weights: w_k[i] = i + k (integers), so the weighted sum is an integer *)
Wt(k, i) == i + k
WSum(Y) == LET n == Shape(Y)
               F(p) == LET idx == MultiIdx(p, n)
                           G(k) == Wt(k, idx[k])
                           RECURSIVE PW(_)
                           PW(k) == IF k = 0 THEN 1 ELSE G(k) * PW(k - 1)
                       IN Entry(Y, idx) * PW(Len(n))
           IN SumTo(F, Size(n))

(* unnormalised interface vectors (sum over the remaining modes), both directions *)
RECURSIVE SumRight(_, _), SumLeft(_, _)
SumRight(Y, k) == IF k = Len(Y) + 1 THEN <<1>>
                  ELSE LET w == SumRight(Y, k + 1)  c == Y[k]
                       IN [a \in 1..c.r1 |-> LET F(i) == LET G(b) == c.v[a][i][b] * w[b] IN SumTo(G, c.r2) IN SumTo(F, c.n)]
SumLeft(Y, k) == IF k = 0 THEN <<1>>
                 ELSE LET w == SumLeft(Y, k - 1)  c == Y[k]
                      IN [b \in 1..c.r2 |-> LET F(i) == LET G(a) == w[a] * c.v[a][i][b] IN SumTo(G, c.r1) IN SumTo(F, c.n)]
IfR(Y) == [k \in 1..(Len(Y)+1) |-> SumRight(Y, k)]          \* interface(Y, ltr=False, norm=None)
IfL(Y) == [k \in 1..(Len(Y)+1) |-> SumLeft(Y, k - 1)]       \* interface(Y, ltr=True, norm=None)
LastIdx(Y) == [k \in 1..Len(Y) |-> Y[k].n]
IdxR(Y, idx) == [k \in 1..(Len(Y)+1) |-> RightVec(Y, idx, k)]
IdxL(Y, idx) == [k \in 1..(Len(Y)+1) |-> LeftVec(Y, idx, k - 1)]
IfaceOK == Mode \in {"all", "pair"} =>      \* both directions end in the sum / the entry
   /\ IfR(y1)[1][1] = DSum(D1) /\ IfL(y1)[Len(y1)+1][1] = DSum(D1)
   /\ IdxR(y1, LastIdx(y1))[1][1] = Entry(y1, LastIdx(y1))

EmitAll == (Mode = "all") =>
  PrintT(ToJson([mode |-> "all", cores |-> y1, n |-> N1, full |-> D1, sum |-> DSum(D1), norm2 |-> DDot(D1, D1),
                 size |-> NParams(y1), ranks |-> Ranks(y1), wsum |-> WSum(y1),
                 ifr |-> IfR(y1), ifl |-> IfL(y1), idxr |-> IdxR(y1, LastIdx(y1)), idxl |-> IdxL(y1, LastIdx(y1))]))
EmitPair == (Mode = "pair") =>
  PrintT(ToJson([mode |-> "pair", cores1 |-> y1, cores2 |-> y2, n |-> N1, full1 |-> D1, full2 |-> D2,
                 add |-> DAdd(D1, D2), sub |-> DSub(D1, D2), mul |-> DMul(D1, D2), outer |-> DOuter(D1, D2),
                 dot |-> DDot(D1, D2), sum1 |-> DSum(D1), norm2_1 |-> DDot(D1, D1), norm2_2 |-> DDot(D2, D2),
                 dist2 |-> DDot(DSub(D1, D2), DSub(D1, D2)), wsum1 |-> WSum(y1),
                 ranks1 |-> Ranks(y1), ranks2 |-> Ranks(y2), size1 |-> NParams(y1),
                 ifr |-> IfR(y1), ifl |-> IfL(y1), idxr |-> IdxR(y1, LastIdx(y1)), idxl |-> IdxL(y1, LastIdx(y1))]))
EmitProg == (Mode = "prog" /\ step = MaxDepth) => PrintT(ToJson([mode |-> "prog", hist |-> hist]))
ValsPM1 == {-1, 0, 1}
ValsZ == {0}
NumsA == {-2, 0, 3}
Shape22 == <<2, 2>>
Shape23 == <<2, 3>>
Shape222 == <<2, 2, 2>>
Ranks121 == <<1, 2, 1>>
Ranks1221 == <<1, 2, 2, 1>>
ShapesA == { <<2, 2>>, <<3, 2>>, <<1, 3>>, <<2, 1, 2>>, <<2, 3, 2>> }
ShapesP == { <<2, 2>>, <<2, 3, 2>>, <<3, 1>> }
=============================================================================
