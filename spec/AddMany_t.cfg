SPECIFICATION Spec
CONSTANTS
  D = 3
  NPre = 2
  NE = 3
  EnSet <- E12
  LMin = 4
  LMax = 4
  FrSet <- Fr12
  Caps <- Caps12
  EpSet <- Eps2
INVARIANT AccumulatedBound
INVARIANT IntermediateBound
INVARIANT RankCap
CHECK_DEADLOCK FALSE
