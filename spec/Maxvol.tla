---------------------------- MODULE Maxvol ----------------------------
(***************************************************************************)
(* Determinant model of teneva.maxvol and maxvol_rect for integer matrices. *)
(*                                                                         *)
(* For a tall matrix A (n x r) and r distinct rows I with det A[I] # 0,     *)
(* Cramer's rule gives the coefficient matrix B = A A[I]^-1 entry-wise:      *)
(*      B[i][j] = det(A[I with row j replaced by row i]) / det(A[I]),       *)
(* so |B[i][j]| is the factor by which the volume changes under the swap.   *)
(* Rectangular variant: the row energies of B = A A[I]^+ are                *)
(*      F_i = A_i adj(G) A_i^T / det(G),  G = A[I]^T A[I].                  *)
(* e, e^2 are rationals <<num, den>>.  Rows are 1-based here.               *)
(***************************************************************************)
EXTENDS Integers, Sequences, FiniteSets, TLC

VARIABLES A,        \* matrix: sequence of rows (sequences of integers)
          par,      \* [e |-> <<num,den>>, k |-> iteration limit, rmin, rmax, e2 |-> <<num,den>>]
          I,        \* selected rows (sequence, distinct)
          pc,       \* "init" | "loop" | "conv" | "limit" | "rect" | "rstop" | "done"
          nsw       \* swaps done
vars == <<A, par, I, pc, nsw>>

NR == Len(A)
R  == Len(A[1])
Abs(x) == IF x < 0 THEN -x ELSE x

Minor(M, i, j) == [a \in 1..(Len(M)-1) |-> [b \in 1..(Len(M)-1) |->
                     M[IF a < i THEN a ELSE a + 1][IF b < j THEN b ELSE b + 1]]]
RECURSIVE Det(_)
Det(M) == IF Len(M) = 1 THEN M[1][1]
          ELSE LET RECURSIVE Ex(_)
                   Ex(j) == IF j = 0 THEN 0
                            ELSE (IF j % 2 = 1 THEN 1 ELSE -1) * M[1][j] * Det(Minor(M, 1, j)) + Ex(j - 1)
               IN Ex(Len(M))
Sub(II) == [a \in 1..Len(II) |-> A[II[a]]]
DetI(II) == Det(Sub(II))
Swapped(II, j, i) == [II EXCEPT ![j] = i]
Num(i, j) == DetI(Swapped(I, j, i))            \* numerator of B[i][j]; denominator DetI(I)
IsDistinct(II) == Cardinality({II[a] : a \in 1..Len(II)}) = Len(II)

MaxNum == LET S == { Abs(Num(i, j)) : i \in 1..NR, j \in 1..R } IN CHOOSE x \in S : \A y \in S : y <= x
\* |B[i][j]| > e  <=>  |Num| * den > num * |det|
Above(x) == x * par.e[2] > par.e[1] * Abs(DetI(I))
AtMost(x) == x * par.e[2] <= par.e[1] * Abs(DetI(I))
Equal(x) == x * par.e[2] = par.e[1] * Abs(DetI(I))

(* ------------------------------ maxvol ----------------------------------- *)
Start(I0) ==           \* LU initialisation: any r distinct rows with a non-singular submatrix
  /\ pc = "init"
  /\ Len(I0) = R /\ IsDistinct(I0) /\ \A a \in 1..R : I0[a] \in 1..NR
  /\ DetI(I0) # 0
  /\ I' = I0 /\ pc' = "loop"
  /\ UNCHANGED <<A, par, nsw>>
Swap(i, j) ==          \* an argmax of |B| that exceeds e (equality with e may go either way)
  /\ pc = "loop" /\ nsw < par.k
  /\ Abs(Num(i, j)) = MaxNum
  /\ (Above(MaxNum) \/ Equal(MaxNum))
  /\ I' = Swapped(I, j, i) /\ nsw' = nsw + 1
  /\ UNCHANGED <<A, par, pc>>
Converged ==
  /\ pc = "loop" /\ nsw < par.k
  /\ AtMost(MaxNum)
  /\ pc' = "conv" /\ UNCHANGED <<A, par, I, nsw>>
Limit ==
  /\ pc = "loop" /\ nsw = par.k
  /\ pc' = "limit" /\ UNCHANGED <<A, par, I, nsw>>

(* ---------------------------- maxvol_rect -------------------------------- *)
\* Gram matrix of the selected rows and its adjugate
Gram(II) == [a \in 1..R |-> [b \in 1..R |->
               LET RECURSIVE S(_)
                   S(t) == IF t = 0 THEN 0 ELSE A[II[t]][a] * A[II[t]][b] + S(t - 1)
               IN S(Len(II))]]
Adj(M) == IF Len(M) = 1 THEN << <<1>> >>
          ELSE [a \in 1..Len(M) |-> [b \in 1..Len(M) |->
                  (IF (a + b) % 2 = 0 THEN 1 ELSE -1) * Det(Minor(M, b, a))]]
\* F_i = FNum(i) / FDen
FDen(II) == Det(Gram(II))
FNum(II, i) == LET AG == Adj(Gram(II))
                   RECURSIVE S2(_, _)
                   S2(a, b) == IF a = 0 THEN 0
                               ELSE IF b = 0 THEN S2(a - 1, R)
                               ELSE A[i][a] * AG[a][b] * A[i][b] + S2(a, b - 1)
               IN S2(R, R)
Unsel == (1..NR) \ { I[a] : a \in 1..Len(I) }
MaxF == LET S == { FNum(I, i) : i \in Unsel } IN CHOOSE x \in S : \A y \in S : y <= x
\* F <= e^2  <=>  FNum * den2 <= num2 * FDen   (FDen > 0)
FSmall(x) == x * par.e2[2] <= par.e2[1] * FDen(I)
FEqual(x) == x * par.e2[2] = par.e2[1] * FDen(I)

RectStart ==        \* after the square stage (converged or limit)
  /\ pc \in {"conv", "limit"} /\ par.rmax >= 0
  /\ pc' = "rect" /\ UNCHANGED <<A, par, I, nsw>>
RectAdd(i) ==
  /\ pc = "rect" /\ Len(I) < par.rmax
  /\ i \in Unsel /\ FNum(I, i) = MaxF
  /\ (Len(I) < par.rmin \/ ~FSmall(MaxF) \/ FEqual(MaxF))
  /\ I' = Append(I, i)
  /\ UNCHANGED <<A, par, pc, nsw>>
RectStop ==
  /\ pc = "rect"
  /\ \/ Len(I) = par.rmax
     \/ (Len(I) >= par.rmin /\ Unsel # {} /\ FSmall(MaxF))
  /\ pc' = "rstop" /\ UNCHANGED <<A, par, I, nsw>>

(* ------------------------------ properties ------------------------------- *)
ValidI == pc # "init" => /\ IsDistinct(I) /\ \A a \in 1..Len(I) : I[a] \in 1..NR
                         /\ DetI(SubSeq(I, 1, R)) # 0
\* every swap enlarges the volume: strictly, by more than e (or exactly e on the boundary)
VolumeGrows == [][ (pc = "loop" /\ pc' = "loop" /\ I' # I) =>
                     Abs(DetI(I')) * par.e[2] >= par.e[1] * Abs(DetI(I)) /\ Abs(DetI(I')) > Abs(DetI(I)) ]_vars
Dominant == pc = "conv" => \A i \in 1..NR, j \in 1..R : AtMost(Abs(Num(i, j)))
\* B[I] = identity: Num(I[a], j) = det * [a = j]
IdentityRows == pc \in {"loop", "conv", "limit"} =>
                  \A a \in 1..R, j \in 1..R : Num(I[a], j) = (IF a = j THEN DetI(I) ELSE 0)
RectCount == pc = "rstop" => /\ Len(I) >= par.rmin /\ Len(I) <= par.rmax /\ IsDistinct(I)
RectSmall == (pc = "rstop" /\ Len(I) < par.rmax /\ Unsel # {}) => \A i \in Unsel : FSmall(FNum(I, i))
=============================================================================
