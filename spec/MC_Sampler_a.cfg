SPECIFICATION MSpec
CONSTANTS
  Vals <- ValsA
  Profiles <- ProfA
INVARIANT ChainLin
INVARIANT ChainSq
CHECK_DEADLOCK FALSE
