SPECIFICATION MSpec
CONSTANTS
  Vals <- ValsA
  Profiles <- ProfA
INVARIANT ChainLin
INVARIANT ChainSq
INVARIANT TableOK
CHECK_DEADLOCK FALSE
