SPECIFICATION Spec
CONSTANTS
  N0 = 2
  N1 = 3
  MaxS = 4
  YVals <- YB
  WVals <- W1
  LambSet <- LambB
  G0Vals <- G2
INVARIANT Optimal
INVARIANT Emit
CHECK_DEADLOCK FALSE
