SPECIFICATION Spec
CONSTANTS
  D = 4
  NPre = 2
  NE = 4
  EnSet <- E124
  LMin = 4
  LMax = 7
  FrSet <- Fr23
  Caps <- Caps12
  EpSet <- Eps3
INVARIANT AccumulatedBound
INVARIANT IntermediateBound
INVARIANT RankCap
INVARIANT Emit
CHECK_DEADLOCK FALSE
