---------------------------- MODULE Anova ----------------------------
(***************************************************************************)
(* C13: the additive (ANOVA) model estimated from samples, in exact          *)
(* rationals.  A sample is [i |-> multi-index (0-based values), y |-> int].   *)
(*   f0            = mean of y                                               *)
(*   f1[k][x]      = mean of y over the samples with i_k = x, minus f0       *)
(*   f2[k1,k2][x1,x2] = 0 if the pair never occurs, else the pair mean       *)
(*                      - f0 - f1[k1][x1] - f1[k2][x2]                       *)
(* The observed domain of mode k is the sorted set of values that occur.     *)
(* Order-1 / order-2 model values are emitted at every multi-index of the    *)
(* observed domain.  Design check of the order-1 core pattern (integers):    *)
(* the TT with cores [1 a_1], [[1 a_k],[0 1]], [a_d + c ; 1] denotes          *)
(* c + sum_k a_k[i_k].                                                       *)
(***************************************************************************)
EXTENDS TT, TLC, Json, Rat, FiniteSets

CONSTANTS Dm, NVals, YVals, MaxS, PatVals
VARIABLES smp, phase
vars == <<smp, phase>>

RECURSIVE RSumTo(_, _)
RSumTo(F(_), n) == IF n = 0 THEN <<0, 1>> ELSE RAdd(F(n), RSumTo(F, n - 1))
M == Len(smp)
Code(s) == LET RECURSIVE C(_)
               C(k) == IF k > Dm THEN 0 ELSE s.i[k] + NVals * C(k + 1)
           IN (s.y + 10) + 100 * C(1)
Domain(k) == { smp[s].i[k] : s \in 1..M }
Mean(sel(_)) ==     \* mean of y over the selected samples (must be non-empty)
  LET num(s) == IF sel(s) THEN RInt(smp[s].y) ELSE <<0, 1>>
      cnt == Cardinality({ s \in 1..M : sel(s) })
  IN RDiv(RSumTo(num, M), RInt(cnt))
F0 == LET all(s) == TRUE IN Mean(all)
F1(k, x) == LET sel(s) == smp[s].i[k] = x IN RSub(Mean(sel), F0)
HasPair(k1, x1, k2, x2) == \E s \in 1..M : smp[s].i[k1] = x1 /\ smp[s].i[k2] = x2
F2(k1, x1, k2, x2) == IF ~HasPair(k1, x1, k2, x2) THEN <<0, 1>>
                      ELSE LET sel(s) == smp[s].i[k1] = x1 /\ smp[s].i[k2] = x2
                           IN RSub(RSub(RSub(Mean(sel), F0), F1(k1, x1)), F1(k2, x2))
Model1(idx) == LET t(k) == F1(k, idx[k]) IN RAdd(F0, RSumTo(t, Dm))
Model2(idx) == LET pairs == { <<a, b>> \in (1..Dm) \X (1..Dm) : a < b }
                   RECURSIVE PS(_)
                   PS(P) == IF P = {} THEN <<0, 1>>
                            ELSE LET p == CHOOSE p \in P : TRUE IN RAdd(F2(p[1], idx[p[1]], p[2], idx[p[2]]), PS(P \ {p}))
               IN RAdd(Model1(idx), PS(pairs))
\* sorted observed domain as a sequence
RECURSIVE SortSet(_)
SortSet(S) == IF S = {} THEN <<>> ELSE LET mn == CHOOSE x \in S : \A z \in S : x <= z IN <<mn>> \o SortSet(S \ {mn})
Dom == [k \in 1..Dm |-> SortSet(Domain(k))]
Shp == [k \in 1..Dm |-> Len(Dom[k])]
AtPos(p) == LET pos == MultiIdx(p, Shp) IN [k \in 1..Dm |-> Dom[k][pos[k]]]

Init == /\ \E m \in 1..MaxS : smp \in [1..m -> [i : [1..Dm -> 0..(NVals-1)], y : YVals]]
        /\ \A s \in 1..(Len(smp)-1) : Code(smp[s]) <= Code(smp[s+1])       \* sample order is irrelevant: canonical representatives
        /\ phase = 0
Next == phase = 0 /\ phase' = 1 /\ UNCHANGED smp
Spec == Init /\ [][Next]_vars

\* the means are consistent: the weighted sum of the first-order terms of any mode vanishes
ZeroMean == phase = 1 => \A k \in 1..Dm :
   LET t(s) == F1(k, smp[s].i[k]) IN RSumTo(t, M) = <<0, 1>>
Emit == phase = 1 => PrintT(ToJson([smp |-> smp, d |-> Dm, dom |-> Dom, shape |-> Shp, f0 |-> F0,
          f1 |-> [k \in 1..Dm |-> [j \in 1..Shp[k] |-> F1(k, Dom[k][j])]],
          v1 |-> [p \in 1..Size(Shp) |-> Model1(AtPos(p))],
          v2 |-> [p \in 1..Size(Shp) |-> Model2(AtPos(p))]]))

(* ---- design check of the order-1 core pattern, integer placeholders ---- *)
PatCore(a, k, d, c) ==
  IF k = 1 THEN [r1 |-> 1, n |-> Len(a), r2 |-> 2, v |-> << [i \in 1..Len(a) |-> <<1, a[i]>>] >>]
  ELSE IF k = d THEN [r1 |-> 2, n |-> Len(a), r2 |-> 1, v |-> << [i \in 1..Len(a) |-> <<a[i] + c>>], [i \in 1..Len(a) |-> <<1>>] >>]
  ELSE [r1 |-> 2, n |-> Len(a), r2 |-> 2, v |-> << [i \in 1..Len(a) |-> <<1, a[i]>>], [i \in 1..Len(a) |-> <<0, 1>>] >>]
PatternOK ==
  \A a1 \in [1..2 -> PatVals], a2 \in [1..2 -> PatVals], a3 \in [1..2 -> PatVals], c \in PatVals :
     /\ Denote(<<PatCore(a1, 1, 2, c), PatCore(a2, 2, 2, c)>>) = [p \in 1..4 |-> LET ix == MultiIdx(p, <<2, 2>>) IN c + a1[ix[1]] + a2[ix[2]]]
     /\ Denote(<<PatCore(a1, 1, 3, c), PatCore(a2, 2, 3, c), PatCore(a3, 3, 3, c)>>)
           = [p \in 1..8 |-> LET ix == MultiIdx(p, <<2, 2, 2>>) IN c + a1[ix[1]] + a2[ix[2]] + a3[ix[3]]]
YA == {-1, 0, 2}
PV == {-1, 0, 2}
=============================================================================
