SPECIFICATION Spec
CONSTANTS
  Mode = "all"
  Shapes = {}
  RankSets = {1}
  Seeds = {1}
  Vals <- ValsPM1
  AllShape <- Shape22
  AllRanks <- Ranks121
  Nums <- ValsZ
  K = 1
  MaxDepth = 0
INVARIANT DenoteOK
INVARIANT IfaceOK
INVARIANT EmitAll
CHECK_DEADLOCK FALSE
