SPECIFICATION MSpec
CONSTANTS
  Vals <- ValsB
  Profiles <- ProfB
INVARIANT ChainLin
INVARIANT ChainSq
INVARIANT TableOK
CHECK_DEADLOCK FALSE
