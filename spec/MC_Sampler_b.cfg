SPECIFICATION MSpec
CONSTANTS
  Vals <- ValsB
  Profiles <- ProfB
INVARIANT ChainLin
INVARIANT ChainSq
CHECK_DEADLOCK FALSE
