SPECIFICATION Spec
CONSTANTS
  Dm = 3
  NVals = 2
  YVals <- YA
  MaxS = 4
  PatVals <- PV
INVARIANT ZeroMean
INVARIANT PatternOK
INVARIANT Emit
CHECK_DEADLOCK FALSE
