SPECIFICATION Spec
CONSTANTS
  MaxLen = 3
  Det <- DetF
  Rnd <- RndF
  Faulty = FALSE
INVARIANT HistoryIndependent
INVARIANT Emit
PROPERTY GeneratorUntouched
CHECK_DEADLOCK FALSE
