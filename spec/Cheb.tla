---------------------------- MODULE Cheb ----------------------------
(***************************************************************************)
(* C12: Chebyshev interpolation in coefficient space.                       *)
(* A function register is its INTEGER Chebyshev-coefficient tensor (the      *)
(* denotation of a TT with integer cores); the polynomial it stands for is   *)
(*      f(x) = sum_k c[k] prod_j T_{k_j}(t_j),   t_j = (2 x_j - a_j - b_j)/(b_j - a_j). *)
(* All claimed identities are exact here:                                   *)
(*   Eval      value at a rational point of the reference cube (recurrence)  *)
(*   Integral  prod (b_j - a_j)/2 * sum over even k of prod 2/(1 - k_j^2) c_k *)
(*   DiffCoef  coefficients of the derivative (1-D): c'_{k-1} = c'_{k+1} + 2 k c_k, *)
(*             c'_0 halved; times 2/(b - a)                                  *)
(*   Pad       re-sampling on a grid m >= n followed by interpolation gives  *)
(*             the zero-padded coefficient tensor                            *)
(* TT and dense routines are two implementations of the same action.        *)
(***************************************************************************)
EXTENDS TT, TLC, Json, Rat

CONSTANTS Profiles, Seeds, Points, Boxes
VARIABLES prof, y, seed, phase
vars == <<prof, y, seed, phase>>

H(s, k, a, i, b) == ((s * 7 + k * 13 + a * 3 + i * 5 + b * 11 + (s * a * i) + (k * b) + (s * s * b * i)) % 5) - 2
PalCore(s, k, r1, nn, r2) == [r1 |-> r1, n |-> nn, r2 |-> r2, v |-> [a \in 1..r1 |-> [i \in 1..nn |-> [b \in 1..r2 |-> H(s, k, a, i, b)]]]]
RankAt(p, k) == IF k = 1 \/ k = Len(p.n) + 1 THEN 1 ELSE p.r

\* Chebyshev polynomial T_k at a rational t
RECURSIVE Tk(_, _)
Tk(k, t) == IF k = 0 THEN <<1, 1>> ELSE IF k = 1 THEN t
            ELSE RSub(RMul(RMul(<<2, 1>>, t), Tk(k - 1, t)), Tk(k - 2, t))
RECURSIVE RSumTo(_, _)
RSumTo(F(_), n) == IF n = 0 THEN <<0, 1>> ELSE RAdd(F(n), RSumTo(F, n - 1))
RECURSIVE RProdTo(_, _)
RProdTo(F(_), n) == IF n = 0 THEN <<1, 1>> ELSE RMul(F(n), RProdTo(F, n - 1))

Eval(cf, n, pt) ==       \* pt: sequence of rationals in [-1, 1]
  LET term(p) == LET idx == MultiIdx(p, n)
                     basis(j) == Tk(idx[j] - 1, pt[j])
                 IN RMul(RInt(cf[p]), RProdTo(basis, Len(n)))
  IN RSumTo(term, Size(n))

\* integral of T_k over [-1, 1]: 2 / (1 - k^2) for even k, 0 for odd k
IntT(k) == IF k % 2 = 1 THEN <<0, 1>> ELSE RNorm(2, 1 - k * k)
Integral(cf, n, box) ==   \* box: sequence of <<a, b>> integer pairs
  LET term(p) == LET idx == MultiIdx(p, n)
                     w(j) == IntT(idx[j] - 1)
                 IN RMul(RInt(cf[p]), RProdTo(w, Len(n)))
      half(j) == RNorm(box[j][2] - box[j][1], 2)
  IN RMul(RSumTo(term, Size(n)), RProdTo(half, Len(n)))

\* derivative coefficients of a 1-D expansion c[1..m] (orders 0..m-1), on [-1, 1]
RECURSIVE DC(_, _)
DC(cf, k) ==   \* c'_k for k = 0..m-2 (un-halved recurrence value b_k: b_{k-1} = b_{k+1} + 2 k c_k)
  IF k >= Len(cf) - 1 THEN 0 ELSE DC(cf, k + 2) + 2 * (k + 1) * cf[k + 2]
DiffCoef(cf) == [k \in 1..Len(cf) |-> IF k = Len(cf) THEN <<0, 1>> ELSE IF k = 1 THEN RNorm(DC(cf, 0), 2) ELSE RInt(DC(cf, k - 1))]

Init == /\ prof \in Profiles /\ seed \in Seeds /\ phase = 0
        /\ y = [k \in 1..Len(prof.n) |-> PalCore(seed, k, RankAt(prof, k), prof.n[k], RankAt(prof, k + 1))]
Next == phase = 0 /\ phase' = 1 /\ UNCHANGED <<prof, y, seed>>
Spec == Init /\ [][Next]_vars

Cf == Denote(y)
PtSets == [1..Len(prof.n) -> Points]
\* the derivative of the interpolant integrates back: consistency lemma checked by TLC (1-D):
\*   integral over [-1,1] of f' = f(1) - f(-1)
DiffLemma == (phase = 1 /\ Len(prof.n) = 1) =>
   LET d1 == DiffCoef(Cf)
       F(k) == RMul(d1[k], IntT(k - 1))
   IN RSumTo(F, Len(d1)) = RSub(Eval(Cf, prof.n, << <<1, 1>> >>), Eval(Cf, prof.n, << <<-1, 1>> >>))
Emit == phase = 1 => PrintT(ToJson([cores |-> y, n |-> prof.n, coef |-> Cf,
           evals |-> [pt \in PtSets |-> Eval(Cf, prof.n, pt)],
           pts |-> [pt \in PtSets |-> pt],
           ints |-> [bx \in 1..Len(Boxes) |-> Integral(Cf, prof.n, [j \in 1..Len(prof.n) |-> Boxes[bx][((j - 1) % Len(Boxes[bx])) + 1]])],
           diff |-> IF Len(prof.n) = 1 THEN DiffCoef(Cf) ELSE <<>>]))

PtsA == { <<-1, 1>>, <<-1, 2>>, <<0, 1>>, <<1, 3>>, <<1, 1>> }
BoxesA == << << <<-1, 1>> >>, << <<0, 2>> >>, << <<-3, 5>>, <<-2, 2>> >>, << <<-2, 2>> >>, << <<1, 4>>, <<-1, 1>>, <<0, 1>> >> >>
ProfQ == { [n |-> <<2>>, r |-> 1], [n |-> <<4>>, r |-> 1], [n |-> <<5>>, r |-> 1], [n |-> <<3, 2>>, r |-> 2], [n |-> <<3, 4>>, r |-> 1], [n |-> <<2, 3, 2>>, r |-> 2] }
ProfT == ProfQ \cup { [n |-> <<3>>, r |-> 1], [n |-> <<6>>, r |-> 1], [n |-> <<4, 4>>, r |-> 2], [n |-> <<5, 2>>, r |-> 2], [n |-> <<3, 3, 3>>, r |-> 2], [n |-> <<2, 2, 2, 2>>, r |-> 2] }
=============================================================================
