---------------------------- MODULE Degenerate ----------------------------
(***************************************************************************)
(* C11: the catalogue of degenerate-but-valid inputs times routines times    *)
(* flags.  The abstract result of every routine that returns a TT-tensor is  *)
(* "wf" (well-formed: three-dimensional float cores, boundary ranks 1,        *)
(* matching neighbour ranks, expected mode sizes, finite entries); scalars    *)
(* are "finite"; an undefined relative accuracy is the sentinel "-1".         *)
(* Families (the degenerate members named by the property):                   *)
(*   zero      exactly-zero tensor (zero cores)                               *)
(*   mulzero   mul(Y, 0)                                                       *)
(*   deficient rank-deficient unfoldings (duplicated / zero columns)          *)
(*   overrank  ranks larger than a core can carry                             *)
(*   rank1     TT-rank 1        two      d = 2        mode1   a mode of size 1 *)
(*   const     constant tensor / constant data                                *)
(*   repeat    repeated samples (data-driven routines)                        *)
(* TLC enumerates the full product (it is the authoritative list the harness  *)
(* must execute) and the expected outcome class of every combination.         *)
(***************************************************************************)
EXTENDS Integers, Sequences, FiniteSets, TLC, Json
VARIABLE c
Families == {"zero", "mulzero", "deficient", "overrank", "rank1", "two", "mode1", "const"}
DataFamilies == {"zero", "const", "repeat", "rank1", "two", "mode1"}
TensorRoutines ==      \* routine, set of flag tuples
  { <<"truncate", fl>> : fl \in { <<eig, stab>> : eig \in BOOLEAN, stab \in BOOLEAN } } \cup
  { <<"orthogonalize", fl>> : fl \in { <<piv, stab>> : piv \in {"first", "mid", "last"}, stab \in BOOLEAN } } \cup
  { <<"orth_step", fl>> : fl \in { <<side, inpl>> : side \in {"left", "right"}, inpl \in BOOLEAN } } \cup
  { <<"svd", <<cap>> >> : cap \in {1, 2, 100} } \cup
  { <<"svd_matrix", <<cap>> >> : cap \in {1, 100} } \cup
  { <<"tt_to_qtt", <<cap>> >> : cap \in {1, 2, 100} } \cup
  { <<"qtt_roundtrip", <<0>> >> } \cup
  { <<"add_many", <<fr>> >> : fr \in {1, 2, 15} } \cup
  { <<"add", <<0>> >>, <<"sub_self", <<0>> >>, <<"mul", <<0>> >>, <<"func_int", <<0>> >>, <<"func_gets", <<0>> >>, <<"func_int_sin", <<0>> >> } \cup
  { <<"scalars", <<stab>> >> : stab \in BOOLEAN } \cup
  { <<"accuracy", <<0>> >> }
DataRoutines ==
  { <<"cross", fl>> : fl \in { <<cache, dr>> : cache \in BOOLEAN, dr \in {0, 1, 2} } } \cup
  { <<"als", fl>> : fl \in { <<w, lam>> : w \in BOOLEAN, lam \in {"small", "one"} } } \cup
  { <<"als_adaptive", <<y0>> >> : y0 \in {"rank1", "overrank"} } \cup      \* initial approximation: rank 1 / ranks above what a core carries
  { <<"anova", <<ord>> >> : ord \in {1, 2} } \cup
  { <<"anova_func", <<lam>> >> : lam \in {0, 1, 2} } \cup       \* 0: defaults; 1: lamb = 0 with more basis functions than distinct abscissae; 2: the same with the default lamb
  { <<"als_func", <<0>> >> }
Cases == { [fam |-> f, routine |-> r[1], flags |-> r[2], data |-> FALSE] : f \in Families, r \in TensorRoutines } \cup
         { [fam |-> f, routine |-> r[1], flags |-> r[2], data |-> TRUE] : f \in DataFamilies, r \in DataRoutines }
\* outcome class
Outcome(x) == IF x.routine = "scalars" THEN "finite"
              ELSE IF x.routine = "accuracy" THEN (IF x.fam \in {"zero", "mulzero"} THEN "sentinel" ELSE "finite")
              ELSE "wf"
Init == c \in Cases
Next == UNCHANGED c
Spec == Init /\ [][Next]_c
Total == Cardinality(Cases)
Emit == PrintT(ToJson([case |-> c, outcome |-> Outcome(c)]))
=============================================================================
