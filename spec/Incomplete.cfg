SPECIFICATION Spec
CONSTANTS
  NMax = 6
  LMax = 5
  Cases <- CasesQ
INVARIANT LayoutAgree
INVARIANT Emit
CHECK_DEADLOCK FALSE
