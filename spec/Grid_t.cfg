SPECIFICATION Spec
CONSTANTS
  NSet <- NT
  EighthsOut <- Out
  FlatShapes <- FS
  CdfSamples <- CS
  CdfQueries <- CQ
INVARIANT NodeFixed
INVARIANT FlatBijective
INVARIANT Emit
CHECK_DEADLOCK FALSE
