SPECIFICATION Spec
CONSTANTS
  NSet <- NT
  EighthsOut <- Out
  FlatShapes <- FS
  CdfSamples <- CS
  CdfQueries <- CQ
  BandM <- BM
  BandEps <- BE
INVARIANT NodeFixed
INVARIANT FlatBijective
INVARIANT BandSound
INVARIANT Emit
CHECK_DEADLOCK FALSE
