SPECIFICATION MCSpecFair
CONSTANTS
  Shape <- Shape_23
  R0 <- R0_111
  Rho <- Rho_121
  DrMin = 1
  DrMax = 1
  NSwp = 1
  MBig = 6
  WithCache = TRUE
  Mcs = 1000
  NoneMax = 2
  Pre <- Pre_none
  Emit = FALSE
INVARIANT DomainInv
INVARIANT BatchDistinct
INVARIANT BudgetInv
INVARIANT CountInv
INVARIANT FoldCompat
INVARIANT ReturnWF
INVARIANT SweepWF
INVARIANT StopInv
INVARIANT NestedInv
INVARIANT TypeOK
INVARIANT ScriptInv
PROPERTY Terminates
CHECK_DEADLOCK FALSE
