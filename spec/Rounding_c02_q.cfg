SPECIFICATION Spec
CONSTANTS D = 3
          NPre = 2
          NE = 4
          EnSet <- E12
          TMax = 8
          Dirs = {"rtl"}
          Caps = {1, 2, 3, 99}
          Canon = TRUE
INVARIANT ErrBound
INVARIANT RankCap
INVARIANT RankNoGrow
INVARIANT RankQuasiOpt
INVARIANT ErrVsBest
INVARIANT ExactKept
INVARIANT LiveOK
INVARIANT Emit
CHECK_DEADLOCK FALSE
