SPECIFICATION Spec
CONSTANTS
  MaxLen = 4
  Classes = {"pure", "pass", "inplace"}
INVARIANT PureFresh
INVARIANT Emit
PROPERTY NoInterference
CHECK_DEADLOCK FALSE
