SPECIFICATION Spec
CONSTANTS D = 3
          NPre = 2
          NE = 4
          EMin = 0
          EMax = 1
          Dirs = {"rtl", "ltr"}
          Caps = {1, 2, 3, 99}
          Canon = TRUE
INVARIANT ErrBound
INVARIANT RankCap
INVARIANT RankNoGrow
INVARIANT RankQuasiOpt
INVARIANT ErrVsBest
INVARIANT ExactKept
INVARIANT LiveOK
INVARIANT Emit
CHECK_DEADLOCK FALSE
