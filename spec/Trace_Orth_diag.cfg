SPECIFICATION TSpec
CONSTANTS
  Shapes <- ShQ
  RankVals <- RV
  MaxLen = 2
INVARIANT Accepted
INVARIANT Progress
CHECK_DEADLOCK FALSE
