SPECIFICATION Spec
CONSTANTS
  Profiles <- ProfT
  Seeds = {1, 2, 3, 4, 5, 6, 7, 8, 9, 10, 11, 12, 13, 14, 15, 16, 17, 18, 19, 20, 21, 22, 23, 24, 25, 26, 27, 28, 29, 30}
  Points <- PtsA
  Boxes <- BoxesA
INVARIANT DiffLemma
INVARIANT Emit
CHECK_DEADLOCK FALSE
