SPECIFICATION Spec
CONSTANTS
  Profiles <- ProfT
  Seeds = {1, 2, 3, 4, 5, 6}
  Points <- PtsA
  Boxes <- BoxesA
INVARIANT DiffLemma
INVARIANT Emit
CHECK_DEADLOCK FALSE
