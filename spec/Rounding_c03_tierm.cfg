SPECIFICATION Spec
CONSTANTS D = 2
          NPre = 4
          NE = 4
          EnSet <- ETier
          TMax = 4
          Dirs = {"ltr"}
          Caps = {2, 99}
          Canon = TRUE
INVARIANT ErrBound
INVARIANT RankCap
INVARIANT RankNoGrow
INVARIANT RankQuasiOpt
INVARIANT ErrVsBest
INVARIANT ExactKept
INVARIANT LiveOK
INVARIANT Emit
CHECK_DEADLOCK FALSE
