SPECIFICATION Spec
CONSTANTS
  QD <- QDT
INVARIANT Inverse
INVARIANT Onto
INVARIANT Emit
CHECK_DEADLOCK FALSE
