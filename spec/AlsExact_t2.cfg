SPECIFICATION Spec
CONSTANTS
  N0 = 2
  N1 = 2
  MaxS = 3
  YVals <- YA
  WVals <- W12
  LambSet <- LambA
  G0Vals <- G2
INVARIANT Optimal
INVARIANT Emit
CHECK_DEADLOCK FALSE
