SPECIFICATION BSpec
CONSTANT QMax = 3
INVARIANT Inverse
INVARIANT Emit
CHECK_DEADLOCK FALSE
