SPECIFICATION MCSpec
CONSTANTS
  Sizes <- S43
  Ent <- EntS
  KLim <- K12
  DrSet <- NoDr
  Emit = FALSE
INVARIANT ValidI
INVARIANT Dominant
INVARIANT IdentityRows
PROPERTY VolumeGrows
CHECK_DEADLOCK FALSE
