SPECIFICATION Spec
CONSTANTS
  Dm = 2
  NVals = 3
  YVals <- YA
  MaxS = 4
  PatVals <- PV
INVARIANT ZeroMean
INVARIANT PatternOK
INVARIANT Emit
CHECK_DEADLOCK FALSE
