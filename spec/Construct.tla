---------------------------- MODULE Construct ----------------------------
(***************************************************************************)
(* C19: explicit constructors.  One case per state; TLC computes the dense   *)
(* denotation (as a 0/1 mask times v, or as integers) and checks the         *)
(* property's consequences on the model before emitting the case.            *)
(* Indices are 0-based as in the library; flat order is C order.             *)
(***************************************************************************)
EXTENDS Integers, Sequences, FiniteSets, TLC, Json, TT

CONSTANTS ShapesC, QMax, ZMax
VARIABLE c
AllIdx(n) == { [k \in 1..Len(n) |-> MultiIdx(p, n)[k] - 1] : p \in 1..Size(n) }   \* 0-based multi-indices

(* ---- const with a zero list: the code zeroes one mode slice per listed    *)
(* index, walking round-robin over the modes and skipping a mode where the   *)
(* listed index agrees with the protected one                                *)
RECURSIVE ZeroWalk(_, _, _, _, _, _)
\* returns [ok, cuts] : cuts = set of <<mode, value>> slices set to zero
ZeroWalk(n, zs, inz, j, k, cuts) ==
  IF j > Len(zs) THEN [ok |-> TRUE, cuts |-> cuts]
  ELSE LET d == Len(n)
           z == zs[j]
           \* first mode at or after k (cyclically) where z differs from inz
           cand == { s \in 0..(d-1) : inz = <<>> \/ z[((k - 1 + s) % d) + 1] # inz[((k - 1 + s) % d) + 1] }
       IN IF cand = {} THEN [ok |-> FALSE, cuts |-> cuts]
          ELSE LET s == CHOOSE s \in cand : \A t \in cand : s <= t
                   kk == ((k - 1 + s) % d) + 1
                   nxt == IF kk + 1 > d THEN 1 ELSE kk + 1
               IN ZeroWalk(n, zs, inz, j + 1, nxt, cuts \cup {<<kk, z[kk]>>})
ConstMask(n, zs, inz) ==
  LET w == ZeroWalk(n, zs, inz, 1, 1, {})
  IN [ok |-> w.ok,
      mask |-> [p \in 1..Size(n) |-> LET idx == MultiIdx(p, n)
                                     IN IF \E k \in 1..Len(n) : <<k, idx[k] - 1>> \in w.cuts THEN 0 ELSE 1]]
FlatPos(idx0, n) == CHOOSE p \in 1..Size(n) : \A k \in 1..Len(n) : MultiIdx(p, n)[k] - 1 = idx0[k]

(* ---- little-endian bits, negative positions from the end ---- *)
Bits(q, p) == [k \in 1..q |-> (p \div (2^(k-1))) % 2]
Pos(q, i) == IF i >= 0 THEN i ELSE 2^q + i
InRange(q, i) == i < 2^q /\ i >= -(2^q)

RECURSIVE Pow(_, _)
Pow(b, e) == IF e = 0 THEN 1 ELSE b * Pow(b, e - 1)
PolyVal(idx0, shift, power, scale) == LET F(k) == Pow(idx0[k] + shift[k], power) IN scale * SumTo(F, Len(idx0))

\* positions of the delta tensor: 0 .. n_k - 1 from the front, -n_k .. -1 from the end (per mode, in any combination)
MaxMode(n) == CHOOSE m \in { n[k] : k \in 1..Len(n) } : \A k \in 1..Len(n) : n[k] <= m
SignedIdx(n) == { i \in [1..Len(n) -> (0 - MaxMode(n))..(MaxMode(n) - 1)] : \A k \in 1..Len(n) : i[k] \in (0 - n[k])..(n[k] - 1) }
NormIdx(i, n) == [k \in 1..Len(n) |-> IF i[k] >= 0 THEN i[k] ELSE n[k] + i[k]]
PolyLong == { <<2, 3, 3, 2>>, <<2, 2, 2, 2, 2>>, <<3, 2, 2, 2, 3, 2>> }
Cases ==
  UNION { {[kind |-> "const", n |-> n, zs |-> zs, inz |-> inz] :
             zs \in UNION {[1..z -> AllIdx(n)] : z \in 0..ZMax}, inz \in AllIdx(n) \cup {<<>>}} : n \in ShapesC } \cup
  UNION { {[kind |-> "delta", n |-> n, i |-> i] : i \in SignedIdx(n)} : n \in ShapesC } \cup      \* positions from the front or from the end
  {[kind |-> "vdelta", q |-> q, i |-> i] : q \in 1..QMax, i \in (-(2^QMax) - 1)..(2^QMax)} \cup
  {[kind |-> "mdelta", q |-> q, i |-> i, j |-> j] : q \in 1..(QMax - 1), i \in (-(2^(QMax-1)) - 1)..(2^(QMax-1)), j \in (-(2^(QMax-1)) - 1)..(2^(QMax-1))} \cup
  {[kind |-> "poly", n |-> n, shift |-> [k \in 1..Len(n) |-> sh + (k % 2)], power |-> pw, scale |-> sc] :
      n \in ShapesC, sh \in {-1, 0, 2}, pw \in {1, 2, 3}, sc \in {1, -2}} \cup
  \* longer shapes with repeated inner mode sizes and a different shift on every mode (per-mode cores must not be shared)
  {[kind |-> "poly", n |-> n, shift |-> [k \in 1..Len(n) |-> sh + k * st], power |-> pw, scale |-> sc] :
      n \in PolyLong, sh \in {-3, 0}, st \in {1, -2}, pw \in {1, 2, 3}, sc \in {1, -2}} \cup
  {[kind |-> "randshape", n |-> n, r |-> r] : n \in ShapesC, r \in {1, 2, 5}}

Init == c \in Cases
Next == UNCHANGED c
Spec == Init /\ [][Next]_c

Expected ==
  CASE c.kind = "const" ->
         LET m == ConstMask(c.n, c.zs, c.inz)
         IN [raises |-> ~m.ok, mask |-> IF m.ok THEN m.mask ELSE <<>>]
    [] c.kind = "delta" -> [raises |-> FALSE, mask |-> [p \in 1..Size(c.n) |-> IF p = FlatPos(NormIdx(c.i, c.n), c.n) THEN 1 ELSE 0]]
    [] c.kind = "vdelta" -> IF InRange(c.q, c.i) THEN [raises |-> FALSE, bits |-> Bits(c.q, Pos(c.q, c.i))] ELSE [raises |-> TRUE]
    [] c.kind = "mdelta" -> IF InRange(c.q, c.i) /\ InRange(c.q, c.j)
                              THEN [raises |-> FALSE, bi |-> Bits(c.q, Pos(c.q, c.i)), bj |-> Bits(c.q, Pos(c.q, c.j))]
                              ELSE [raises |-> TRUE]
    [] c.kind = "poly" -> [raises |-> FALSE, vals |-> [p \in 1..Size(c.n) |->
                              PolyVal([k \in 1..Len(c.n) |-> MultiIdx(p, c.n)[k] - 1], c.shift, c.power, c.scale)]]
    [] c.kind = "randshape" -> [raises |-> FALSE,
                                shapes |-> [k \in 1..Len(c.n) |-> <<IF k = 1 THEN 1 ELSE c.r, c.n[k], IF k = Len(c.n) THEN 1 ELSE c.r>>],
                                total |-> LET F(k) == (IF k = 1 THEN 1 ELSE c.r) * c.n[k] * (IF k = Len(c.n) THEN 1 ELSE c.r)
                                          IN SumTo(F, Len(c.n))]

(* the property's consequences, on the model *)
ConstOK == c.kind = "const" =>
  LET m == ConstMask(c.n, c.zs, c.inz)
  IN /\ (~m.ok <=> (c.inz # <<>> /\ \E z \in 1..Len(c.zs) : c.zs[z] = c.inz))
     /\ (m.ok => /\ \A z \in 1..Len(c.zs) : m.mask[FlatPos(c.zs[z], c.n)] = 0
                 /\ (c.inz # <<>> => m.mask[FlatPos(c.inz, c.n)] = 1)
                 /\ (Len(c.zs) = 0 => \A p \in 1..Size(c.n) : m.mask[p] = 1))
BitsOK == c.kind = "vdelta" /\ InRange(c.q, c.i) =>
  LET b == Bits(c.q, Pos(c.q, c.i)) F(k) == b[k] * 2^(k-1) IN SumTo(F, c.q) = Pos(c.q, c.i) /\ Pos(c.q, c.i) \in 0..(2^c.q - 1)

Emit == PrintT(ToJson([case |-> c, exp |-> Expected]))
ShapesQ == { <<2, 2>>, <<3, 2>>, <<2, 1, 2>> }
ShapesT == { <<2, 2>>, <<3, 2>>, <<2, 1, 2>>, <<2, 3, 2>>, <<1, 3>>, <<2, 2, 2, 2>> }
=============================================================================
