---------------------------- MODULE Stab ----------------------------
(***************************************************************************)
(* C16: stabilised arithmetic as exponent bookkeeping.                       *)
(* Power-of-two family: a rank-1 chain of d cores written run-length          *)
(* encoded as blocks <<count, pattern, shift>>: `count` consecutive cores     *)
(* equal to the integer pattern vector times 2^shift.  Exact values:          *)
(*   <Y1, Y2> = prod_k (a_k . b_k) * 2^(S1 + S2),  ||Y||^2 = prod_k |a_k|^2 * 4^S *)
(* A stabilised result is a pair (mantissa, exponent) in NORMAL FORM:         *)
(* 1 <= |mantissa| < 2 and exponent integer, which is unique:                 *)
(*   exponent = floor(log2 |value|),  mantissa = value / 2^exponent.          *)
(* Dot products of the patterns are 2^a * odd; the odd parts of a whole chain *)
(* are bounded so that TLC's integers hold them, while the number of cores    *)
(* and the total exponent are unbounded (thousands / +-30000).               *)
(* core_stab(G, p0): max |entry| m > threshold -> (G / 2^floor(log2 m), p0 + floor(log2 m)). *)
(***************************************************************************)
EXTENDS Integers, Sequences, FiniteSets, TLC, Json

CONSTANTS Patterns, Counts, Shifts, MaxBlocks
VARIABLES prof, fin
AbsI(x) == IF x < 0 THEN -x ELSE x
RECURSIVE Log2Floor(_)
Log2Floor(x) == IF x <= 1 THEN 0 ELSE 1 + Log2Floor(x \div 2)
RECURSIVE Dot(_, _, _)
Dot(a, b, k) == IF k > Len(a) \/ k > Len(b) THEN 0 ELSE a[k] * b[k] + Dot(a, b, k + 1)
RECURSIVE Pow(_, _)
Pow(b, e) == IF e = 0 THEN 1 ELSE b * Pow(b, e - 1)
RECURSIVE Pow2Part(_)
Pow2Part(x) == IF x % 2 = 0 /\ x # 0 THEN 1 + Pow2Part(x \div 2) ELSE 0
OddPart(x) == x \div Pow(2, Pow2Part(x))

\* a block: [cnt, a, b, sa, sb]  (pattern of Y1, pattern of Y2, their shifts)
BlockT(bl) == Dot(bl.a, bl.b, 1)                       \* a . b  (may be negative, never 0 in the family)
\* value = sign * odd * 2^e2 ; odd = prod OddPart(|t|)^cnt ; e2 = sum cnt * (Pow2Part(|t|) + sa + sb)
RECURSIVE OddOf(_, _), Exp2Of(_, _), SignOf(_, _), Dim(_, _)
OddPow(o, c) == IF o = 1 THEN 1 ELSE IF c > 8 THEN 40000 ELSE Pow(o, c)      \* 40000: outside the family (excluded in Init)
OddOf(p, k) == IF k > Len(p) THEN 1
               ELSE LET rest == OddOf(p, k + 1)
                        cur == OddPow(OddPart(AbsI(BlockT(p[k]))), p[k].cnt)
                    IN IF rest >= 30000 \/ cur >= 30000 THEN 40000 ELSE (IF cur * rest >= 30000 THEN 40000 ELSE cur * rest)
Exp2Of(p, k) == IF k > Len(p) THEN 0 ELSE p[k].cnt * (Pow2Part(AbsI(BlockT(p[k]))) + p[k].sa + p[k].sb) + Exp2Of(p, k + 1)
SignOf(p, k) == IF k > Len(p) THEN 1 ELSE (IF BlockT(p[k]) < 0 /\ p[k].cnt % 2 = 1 THEN -1 ELSE 1) * SignOf(p, k + 1)
Dim(p, k) == IF k > Len(p) THEN 0 ELSE p[k].cnt + Dim(p, k + 1)
\* normal form of the scalar product: exponent and mantissa = sign * odd / 2^Log2Floor(odd)
DotExp(p) == Exp2Of(p, 1) + Log2Floor(OddOf(p, 1))
DotMantNum(p) == SignOf(p, 1) * OddOf(p, 1)
DotMantDen(p) == Pow(2, Log2Floor(OddOf(p, 1)))

\* sum of all entries of Y1 (C01 on huge tensors): prod_k (sum_i a_k[i]) * 2^S1 ; mean = sum / prod_k n_k
RECURSIVE SumVec(_, _)
SumVec(a, k) == IF k > Len(a) THEN 0 ELSE a[k] + SumVec(a, k + 1)
RECURSIVE SOdd(_, _), SExp(_, _), SSign(_, _), SZero(_, _), NPow2(_, _)
SZero(p, k) == IF k > Len(p) THEN FALSE ELSE (SumVec(p[k].a, 1) = 0) \/ SZero(p, k + 1)
SOdd(p, k) == IF k > Len(p) THEN 1
              ELSE LET rest == SOdd(p, k + 1)  cur == OddPow(OddPart(AbsI(SumVec(p[k].a, 1))), p[k].cnt)
                   IN IF rest >= 30000 \/ cur >= 30000 THEN 40000 ELSE (IF cur * rest >= 30000 THEN 40000 ELSE cur * rest)
SExp(p, k) == IF k > Len(p) THEN 0 ELSE p[k].cnt * (Pow2Part(AbsI(SumVec(p[k].a, 1))) + p[k].sa) + SExp(p, k + 1)
SSign(p, k) == IF k > Len(p) THEN 1 ELSE (IF SumVec(p[k].a, 1) < 0 /\ p[k].cnt % 2 = 1 THEN -1 ELSE 1) * SSign(p, k + 1)
\* number of elements = 2^NPow2 when every pattern has length 2 (else -1)
NPow2(p, k) == IF k > Len(p) THEN 0 ELSE IF Len(p[k].a) # 2 \/ NPow2(p, k + 1) < 0 THEN -1 ELSE p[k].cnt + NPow2(p, k + 1)

\* core_stab on one pattern core c * 2^s with accumulated power p0
StabExp(c, s, p0) == LET m == CHOOSE x \in {AbsI(c[k]) : k \in 1..Len(c)} : \A k \in 1..Len(c) : AbsI(c[k]) <= x
                     IN p0 + Log2Floor(m) + s

Blocks == { bl \in [cnt : Counts, a : Patterns, b : Patterns, sa : Shifts, sb : {0}] : Len(bl.a) = Len(bl.b) /\ BlockT(bl) # 0 }
Init == /\ \E b1 \in Blocks : prof = <<b1>>
        /\ fin = FALSE
Next == /\ ~fin /\ fin' = TRUE
        /\ \/ prof' = prof
           \/ (MaxBlocks >= 2 /\ \E b2 \in Blocks : prof' = Append(prof, b2))
           \/ (MaxBlocks >= 3 /\ \E b2 \in Blocks, b3 \in Blocks : b3.cnt = 1 /\ prof' = prof \o <<b2, b3>>)
Spec == Init /\ [][Next]_<<prof, fin>>
InFamily == fin /\ OddOf(prof, 1) < 30000          \* odd parts stay far from 2^31

\* the normal form is a normal form: 1 <= |mantissa| < 2
NormalForm == InFamily => LET n == AbsI(DotMantNum(prof)) d == DotMantDen(prof) IN d <= n /\ n < 2 * d
\* scaling one core by 2^t shifts the exponent by t and nothing else
ShiftLemma == InFamily => \A t \in {-7, 1, 40} :
   LET q == [prof EXCEPT ![1] = [prof[1] EXCEPT !.sa = prof[1].sa + t]]
   IN (prof[1].cnt = 1) => /\ DotExp(q) = DotExp(prof) + t
                           /\ DotMantNum(q) = DotMantNum(prof) /\ DotMantDen(q) = DotMantDen(prof)
Emit == InFamily => PrintT(ToJson([blocks |-> prof, d |-> Dim(prof, 1), exp |-> DotExp(prof), mnum |-> DotMantNum(prof), mden |-> DotMantDen(prof),
                       stab1 |-> StabExp(prof[1].a, prof[1].sa, 0),
                       szero |-> SZero(prof, 1), sodd |-> IF SZero(prof, 1) THEN 0 ELSE SSign(prof, 1) * SOdd(prof, 1),
                       sexp |-> IF SZero(prof, 1) THEN 0 ELSE SExp(prof, 1), npow2 |-> NPow2(prof, 1)]))

PatA == { <<1, 1>>, <<1, -1>>, <<2, 0>>, <<1, 2>>, <<3, 1>>, <<-1, 2, 1>>, <<2, 2, 0>> }
CntA == {1, 2, 7, 500, 3000}
ShA == {0, 3, -3, 10, -10, -100, 120}
CntQ == {1, 2, 3000}
PatQ == { <<1, 1>>, <<1, -1>>, <<1, 2>>, <<3, 1>> }
ShQ == {0, 3, -10, -100, 120}
=============================================================================
