SPECIFICATION MCSpec
CONSTANTS
  Sizes <- S32
  Ent <- EntS
  KLim <- K100
  DrSet <- NoDr
  Emit = TRUE
INVARIANT ValidI
INVARIANT Dominant
INVARIANT IdentityRows
INVARIANT EmitInv
CHECK_DEADLOCK FALSE
