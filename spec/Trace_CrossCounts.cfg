SPECIFICATION TSpec
INVARIANT ABudgetInv
INVARIANT AReturnWF
INVARIANT AStopInv
INVARIANT ANoCacheInv
INVARIANT Accepted
CHECK_DEADLOCK FALSE
